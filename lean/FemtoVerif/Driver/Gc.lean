import FemtoVerif.Driver.Json
import FemtoVerif.Spec.WF
import FemtoVerif.Model.Gcode
import FemtoVerif.Spec.C01
open Lean

namespace Femto.Driver.GcD
open Femto Femto.Driver Femto.Ctl Femto.Gc

def posJ (p : Pos) : Json := listJ optRatJ [p.x, p.y, p.z]

def evJ : Ev → Json
  | .move m => obj [("t", "m"), ("src", posJ m.src), ("dst", posJ m.dst), ("f", optRatJ m.feed), ("s", Json.bool m.shutter), ("g9", Json.bool m.g9)]
  | .dwell t s => obj [("t", "d"), ("q", ratJ t), ("s", Json.bool s)]
  | .pso on => obj [("t", "pso"), ("on", Json.bool on)]
  | .umove u s => obj [("t", "u"), ("u", ratJ u), ("s", Json.bool s)]
  | .call k s => obj [("t", "call"), ("k", Json.str k), ("s", Json.bool s)]
  | .ret k => obj [("t", "ret"), ("k", Json.str k)]
  | .bufrun k => obj [("t", "buf"), ("k", Json.str k)]
  | .load k => obj [("t", "load"), ("k", Json.str k)]
  | .unload k => obj [("t", "unload"), ("k", Json.str k)]
  | .rot on => obj [("t", "rot"), ("on", Json.bool on)]
  | .err m => obj [("t", "err"), ("m", Json.str m)]

def instrJ : Instr → Json
  | .blank => Json.str "blank"
  | .comment _ => Json.str "comment"
  | .setup s => obj [("setup", Json.str s)]
  | .g1 w => obj [("g1", obj [("x", optRatJ w.x), ("y", optRatJ w.y), ("z", optRatJ w.z),
      ("zvar", match w.zvar with | some v => Json.str v | none => Json.null), ("u", optRatJ w.u), ("f", optRatJ w.f),
      ("g9", Json.bool w.g9), ("decs", listJ natJ w.decs)])]
  | .pso a on => obj [("pso", Json.str a), ("on", Json.bool on)]
  | .dwell t => obj [("dwell", ratJ t)]
  | .rep n => obj [("repeat", natJ n)]
  | .endrep => Json.str "endrepeat"
  | .forr v lo hi => obj [("for", Json.str v), ("lo", intJ lo), ("hi", intJ hi)]
  | .next v => obj [("next", Json.str v)]
  | .dvar vs => obj [("dvar", listJ Json.str vs)]
  | .setVar v q => obj [("set", Json.str v), ("q", ratJ q)]
  | .incVar v q => obj [("inc", Json.str v), ("q", ratJ q)]
  | .load t p => obj [("load", Json.str p), ("task", natJ t)]
  | .stop t => obj [("stop", natJ t)]
  | .waitIdle t => obj [("wait", natJ t)]
  | .remove p => obj [("remove", Json.str p)]
  | .farcall p => obj [("farcall", Json.str p)]
  | .buffered t p => obj [("buffered", Json.str p), ("task", natJ t)]
  | .g84 a => obj [("g84", optRatJ a)]
  | .g92 x y z => obj [("g92", listJ optRatJ [x, y, z])]
  | .absolute => Json.str "absolute"
  | .incremental => Json.str "incremental"
  | .msg => Json.str "msg"
  | .bad l => obj [("bad", Json.str l)]

def isNoise : Instr → Bool
  | .blank | .comment _ => true
  | _ => false

def wfJ (r : WFReport) : Json :=
  obj [("ok", Json.bool r.ok), ("bad", listJ Json.str r.bad), ("balanced", Json.bool r.balanced),
       ("varsDeclared", Json.bool r.varsDeclared), ("callsLoaded", Json.bool r.callsLoaded),
       ("rotationOff", Json.bool r.rotationOff), ("shutterClosedAtEnd", Json.bool r.shutterClosedAtEnd),
       ("feedsPositive", Json.bool r.feedsPositive), ("loopCounts", Json.bool r.loopCounts)]

/-- everything the harness wants to know about a flat program -/
def analyse (is : List Instr) (wantInstrs : Bool) (σ0 : St := {}) : Json :=
  let wf := wfReport is
  let base := [("n", natJ is.length), ("wf", wfJ wf), ("g1_shutter", listJ Json.bool (g1Shutter is σ0.shutter)),
               ("static_loaded", match staticLoaded is with | some l => listJ Json.str l | none => Json.null),
               ("dwell", match totalDwell is with | some q => ratJ q | none => Json.null)]
  let base := if wantInstrs then base ++ [("instrs", listJ instrJ (is.filter (fun i => !isNoise i)))] else base
  match structure? is with
  | none => obj (base ++ [("events", Json.null)])
  | some ss =>
    let r := execStmts ss σ0
    obj (base ++ [("events", listJ evJ r.2),
      ("final", obj [("shutter", Json.bool r.1.shutter), ("loaded", listJ Json.str r.1.loaded), ("rot", Json.bool r.1.rot),
                     ("pos", posJ r.1.pos), ("dwell", ratJ r.1.dwell)])])

/-- op `ctl.run`: `{text}` → analysis of the real bytes -/
def ctlRun (j : Json) : Except String Json := do
  let text ← jStr? (← field j "text")
  let wantInstrs := (fieldD j "instrs" (Json.bool false)) == Json.bool true
  pure (analyse (parseProgram text) wantInstrs)

def ptOf (j : Json) : Except String Pt := do
  match ← jList? jRat? j with
  | [x, y, z, f, s] => pure ⟨x, y, z, f, s⟩
  | _ => .error "point must have 5 entries"

def cfgOf (j : Json) : Except String Cfg := do
  let header ← jStr? (← field j "header")
  pure {
    psoAxis := ← jStr? (← field j "pso"),
    header := parseProgram header,
    shortPause := ← jOptRat? (← field j "short"),
    longPause := ← jOptRat? (← field j "long"),
    speedPos := ← jRat? (← field j "speed_pos"),
    digits := ← jNat? (← field j "digits"),
    home := ← jBool? (← field j "home"),
    aeroAngle := ← jRat? (← field j "aero"),
    shiftX := ← jRat? (← field j "sx"), shiftY := ← jRat? (← field j "sy"),
    flipX := ← jBool? (← field j "fx"), flipY := ← jBool? (← field j "fy"),
    cosA := ← jRat? (← field j "c"), sinA := ← jRat? (← field j "s"),
    neff := ← jRat? (← field j "neff") }

partial def opOf (j : Json) : Except String Op := do
  let k ← jStr? (← field j "k")
  match k with
  | "write" => pure (.write (← jList? ptOf (← field j "m")))
  | "move" => do
    match ← jList? jOptRat? (← field j "p") with
    | [x, y, z] => pure (.moveTo x y z (← jOptRat? (fieldD j "speed" Json.null)))
    | _ => .error "move needs three coordinates"
  | "origin" => pure .goOrigin
  | "init" => pure .goInit
  | "dwell" => pure (.dwell (← jOptRat? (← field j "p")))
  | "comment" => pure (.comment (← jBool? (← field j "nonempty")))
  | "home" => do
    match ← jList? jOptRat? (← field j "p") with
    | [x, y, z] => pure (.setHome x y z)
    | _ => .error "home needs three coordinates"
  | "repeat" => pure (.rep (← jInt? (← field j "n")) (← jList? opOf (← field j "body")))
  | "for" => pure (.forr (← jStr? (← field j "v")) (← jInt? (← field j "n")) (← jList? opOf (← field j "body")))
  | "rot" => pure (.axisRot (← jOptRat? (← field j "angle")) (← jList? opOf (← field j "body")))
  | "dvar" => pure (.dvar (← jList? jStr? (← field j "vs")))
  | "load" => pure (.load (← jStr? (← field j "p")) (← jNat? (← field j "task")))
  | "farcall" => pure (.farcall (← jStr? (← field j "p")))
  | "buffered" => pure (.buffered (← jStr? (← field j "p")) (← jNat? (← field j "task")))
  | "remove" => pure (.remove (← jStr? (← field j "p")) (← jNat? (← field j "task")))
  | "farcall_list" => do
    let items ← jList? (fun it => do
      match ← jArr? it with
      | [p, t] => pure ((← jStr? p), (← jNat? t))
      | _ => .error "farcall_list item") (← field j "items")
    pure (.farcallList items)
  | "raise" => pure .raise
  | "attempt" => pure (.attempt (← jList? opOf (← field j "body")))
  | "load_bad" => pure (.loadBad (← jStr? (← field j "path")))
  | _ => .error s!"unknown op kind {k}"

/-- op `gc.session`: `{cfg, ops}` → analysis of what the model writes + the model's bookkeeping -/
def gcSession (j : Json) : Except String Json := do
  let cfg ← cfgOf (← field j "cfg")
  let ops ← jList? opOf (← field j "ops")
  let wantInstrs := (fieldD j "instrs" (Json.bool false)) == Json.bool true
  let r := session cfg ops
  let flat := flattenStmts r.1
  pure <| obj [("prog", analyse flat wantInstrs), ("reported_dwell", ratJ r.2.dwellTotal),
               ("loaded", listJ Json.str r.2.loaded), ("shutter_on", Json.bool r.2.shutterOn)]

/-- op `gc.write`: `{cfg, m, shutter_on}` → a single `write` on a fresh compiler (no header) -/
def gcWrite (j : Json) : Except String Json := do
  let cfg ← cfgOf (← field j "cfg")
  let m ← jList? ptOf (← field j "m")
  let on ← jBool? (fieldD j "shutter_on" (Json.bool false))
  match write cfg m { shutterOn := on } with
  | .error _ => pure (obj [("raised", Json.bool true)])
  | .ok o =>
    pure <| obj [("prog", analyse (flattenStmts o.1) true { shutter := on }), ("reported_dwell", ratJ o.2.dwellTotal),
                 ("shutter_on", Json.bool o.2.shutterOn)]

/-- op `gc.fmt`: `{d, q}` → printed value -/
def gcFmt (j : Json) : Except String Json := do
  pure (ratJ (fmt (← jNat? (← field j "d")) (← jRat? (← field j "q"))))

end Femto.Driver.GcD

namespace Femto.Driver.GcD
open Femto Femto.Driver Femto.Ctl

/-- op `ctl.repr`: `{text}` → Lean source of the parsed instruction list (used by the data extractor, DESIGN 3.2) -/
def ctlRepr (j : Json) : Except String Json := do
  let text ← jStr? (← field j "text")
  pure (Json.str (toString (repr (parseProgram text))))

end Femto.Driver.GcD

namespace Femto.Driver.GcD
open Femto Femto.Driver Femto.Ctl Femto.Gc

def moveJ (m : Move) : Json := evJ (.move m)

/-- op `c01.check`: `{cfg, m, text, tol, shutter_on}` → does the program text replay the matrix?
Evaluates the predicate of theorem `C01.write_replays` on the bytes the implementation wrote. -/
def c01Check (j : Json) : Except String Json := do
  let cfg ← cfgOf (← field j "cfg")
  let m ← jList? ptOf (← field j "m")
  let text ← jStr? (← field j "text")
  let tol ← jRat? (fieldD j "tol" (Json.arr #[Json.num 0, Json.num 1]))
  let on ← jBool? (fieldD j "shutter_on" (Json.bool false))
  let is := parseProgram text
  let bad := badLines is
  match printed cfg m with
  | .error _ => pure (obj [("model_raises", Json.bool true)])
  | .ok ws =>
    let expected := expectedFrom {} ws
    match structure? is with
    | none => pure (obj [("replays", Json.bool false), ("why", Json.str "unbalanced program")])
    | some ss =>
      let r := execStmts ss { shutter := on }
      let moves := movesOf r.2
      let d := cfg.digits
      let digitsOk := is.all fun i => match i with | .g1 w => w.decs.all (· == d) | _ => true
      let ok := closeMoves tol moves expected
      pure <| obj [("replays", Json.bool (ok && bad.isEmpty)), ("digits_ok", Json.bool digitsOk),
        ("n_moves", natJ moves.length), ("n_expected", natJ expected.length), ("bad", listJ Json.str bad),
        ("final_shutter", Json.bool r.1.shutter),
        ("first_diff", match firstDiff tol moves expected 0 with
          | none => Json.null
          | some k => obj [("index", natJ k), ("impl", match moves[k]? with | some m => moveJ m | none => Json.null),
                           ("expected", match expected[k]? with | some m => moveJ m | none => Json.null)])]

end Femto.Driver.GcD

namespace Femto.Driver.GcD
open Femto Femto.Driver Femto.Ctl Femto.Gc

end Femto.Driver.GcD

import FemtoVerif.Driver.Json
import FemtoVerif.Model.Sheet
open Lean

namespace Femto.Driver.C18
open Femto Femto.Driver Femto.Sh

def cellOf (j : Json) : Except String Cell :=
  match j with
  | .null => .ok .missing
  | .str s => .ok (.txt s)
  | _ => (jRat? j).map Cell.num

def cellJ : Cell → Json
  | .missing => Json.null
  | .txt s => Json.str s
  | .num q => ratJ q

def preJ : Pre → Json
  | .untouched => Json.str "untouched"
  | .value v => obj [("value", cellJ v)]
  | .variable => Json.str "variable"
  | .removed => Json.str "removed"

/-- op `c18.table`: `{wgs: [[yin, idx]], mks: [idx], cols: [{tag, numeric, pre}], cells: [[cell per col] per structure idx],
suppr, static}` → row order, kept columns, written cells, preamble hand-over -/
def table (j : Json) : Except String Json := do
  let wgs ← (← jArr? (← field j "wgs")).mapM fun e => do
    match ← jArr? e with
    | [y, i] => pure ((← jRat? y), (← jNat? i))
    | _ => .error "wg entry"
  let mks ← jList? jNat? (← field j "mks")
  let cols ← (← jArr? (← field j "cols")).mapM fun c => do
    pure ({ tag := ← jStr? (← field c "tag"), numeric := ← jBool? (← field c "numeric"), inPreamble := ← jBool? (← field c "pre") } : Col)
  let cells ← jList? (jList? cellOf) (← field j "cells")
  let suppr ← jBool? (← field j "suppr")
  let static ← jBool? (← field j "static")
  let order := rows wgs mks
  -- table values per column, in row order
  let colVals : List (Col × List Cell) := cols.zipIdx.map fun (c, k) =>
    (c, order.map fun i => tableVal c.numeric (((cells[i]?).getD [])[k]?.getD .missing))
  let decisions := colVals.map fun (c, vs) => (c, vs, decideCol suppr c vs)
  let kept := decisions.filter fun (_, _, d) => d == .keep
  pure <| obj [
    ("order", listJ natJ order),
    ("kept", listJ Json.str (kept.map fun (c, _, _) => c.tag)),
    ("table", listJ (fun (_, vs, _) => listJ (fun v => cellJ (written v)) vs) kept),
    ("preamble", Json.mkObj (colVals.map fun (c, vs) => (c.tag, preJ (preambleOf suppr static c vs))))]

end Femto.Driver.C18

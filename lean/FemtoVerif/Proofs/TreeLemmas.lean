/-
Soundness of the static shutter discipline (`discStmts`) for the tree interpreter: a disciplined calling file never moves
in x / y with the shutter open, whatever the loops do, and that holds recursively through `FARCALL`.
-/
import FemtoVerif.Spec.Tree
import Mathlib.Tactic.Set
import Mathlib.Tactic.Ring
import Mathlib.Algebra.Order.Field.Rat

namespace Femto.Ctl

/-- what the property demands of a trace: own open moves keep x and y; a called leaf sub-program may do what it likes (its
moves are the block's tool-path); a called calling file is entered with the shutter closed and is itself good -/
inductive Good (leaf : String → Bool) : List TEv → Prop
  | nil : Good leaf []
  | ev (e : Ev) (r : List TEv)
      (h : ∀ m, e = .move m → m.shutter = true → m.src.x = m.dst.x ∧ m.src.y = m.dst.y)
      (hr : Good leaf r) : Good leaf (.ev e :: r)
  | subLeaf (k : String) (s : Bool) (inner r : List TEv) (hk : leaf k = true) (hr : Good leaf r) :
      Good leaf (.sub k s inner :: r)
  | subCall (k : String) (inner r : List TEv) (hk : leaf k = false) (hi : Good leaf inner) (hr : Good leaf r) :
      Good leaf (.sub k false inner :: r)

theorem Good.append {leaf : String → Bool} {a b : List TEv} (ha : Good leaf a) (hb : Good leaf b) : Good leaf (a ++ b) := by
  induction ha with
  | nil => simpa
  | ev e r h _ ih => exact Good.ev e _ h ih
  | subLeaf k s inner r hk _ ih => exact Good.subLeaf k s inner _ hk ih
  | subCall k inner r hk hi _ _ ih => exact Good.subCall k inner _ hk hi ih

/-- events that are not moves are harmless -/
theorem Good.ofNonMoves {leaf : String → Bool} (es : List Ev) (h : ∀ e ∈ es, ∀ m, e ≠ .move m) : Good leaf (es.map .ev) := by
  induction es with
  | nil => exact Good.nil
  | cons e es ih =>
    refine Good.ev e _ ?_ (ih fun e' he' => h e' (List.mem_cons_of_mem _ he'))
    intro m hm
    exact absurd hm (h e (by simp) m)

/-- a handler respects the discipline: whenever the abstract step is defined it predicts the shutter, and the events are good -/
def HOK (leaf : String → Bool) (h : Handler) : Prop :=
  ∀ σ i s', discAtom leaf σ.shutter i = some s' → (h σ i).1.shutter = s' ∧ Good leaf (h σ i).2

section generic
variable {leaf : String → Bool} {h : Handler}

theorem execRepG_sound (body : List Stmt)
    (hb : ∀ σ, discStmts leaf σ.shutter body = some σ.shutter →
      (execStmtsG h body σ).1.shutter = σ.shutter ∧ Good leaf (execStmtsG h body σ).2)
    (k : Nat) (σ : St) (hd : discStmts leaf σ.shutter body = some σ.shutter) :
    (execRepG h k body σ).1.shutter = σ.shutter ∧ Good leaf (execRepG h k body σ).2 := by
  induction k generalizing σ with
  | zero => simp [execRepG, Good.nil]
  | succ k ih =>
    rw [execRepG]
    obtain ⟨h1, g1⟩ := hb σ hd
    have hd' : discStmts leaf (execStmtsG h body σ).1.shutter body = some (execStmtsG h body σ).1.shutter := by
      rw [h1]; exact hd
    obtain ⟨h2, g2⟩ := ih (execStmtsG h body σ).1 hd'
    exact ⟨by simp only [h2, h1], g1.append g2⟩

mutual
  theorem execStmtG_sound (hh : HOK leaf h) (s : Stmt) (σ : St) (s' : Bool) (hd : discStmt leaf σ.shutter s = some s') :
      (execStmtG h s σ).1.shutter = s' ∧ Good leaf (execStmtG h s σ).2 := by
    match s with
    | .atom i =>
      rw [execStmtG]
      rw [discStmt] at hd
      exact hh σ i s' hd
    | .rep n body =>
      rw [execStmtG]
      rw [discStmt] at hd
      split at hd
      · rename_i s1 hs1
        split at hd
        · rename_i he
          subst he
          have hs' : s' = σ.shutter := by simpa using hd.symm
          subst hs'
          exact execRepG_sound body (fun τ hτ => execStmtsG_sound hh body τ τ.shutter hτ) n σ hs1
        · simp at hd
      · simp at hd
    | .forr v lo hi body =>
      rw [execStmtG]
      rw [discStmt] at hd
      split at hd
      · rename_i s1 hs1
        split at hd
        · rename_i he
          subst he
          have hs' : s' = σ.shutter := by simpa using hd.symm
          subst hs'
          have := execRepG_sound body (fun τ hτ => execStmtsG_sound hh body τ τ.shutter hτ) (hi - lo + 1).toNat σ hs1
          split
          · exact this
          · exact ⟨this.1, Good.ev _ _ (by intro m hm; cases hm) this.2⟩
        · simp at hd
      · simp at hd
  theorem execStmtsG_sound (hh : HOK leaf h) (ss : List Stmt) (σ : St) (s' : Bool) (hd : discStmts leaf σ.shutter ss = some s') :
      (execStmtsG h ss σ).1.shutter = s' ∧ Good leaf (execStmtsG h ss σ).2 := by
    match ss with
    | [] =>
      rw [discStmts] at hd
      simp only [Option.some.injEq] at hd
      simp [execStmtsG, hd, Good.nil]
    | st :: rest =>
      rw [execStmtsG]
      rw [discStmts] at hd
      split at hd
      · rename_i s1 hs1
        obtain ⟨h1, g1⟩ := execStmtG_sound hh st σ s1 hs1
        have hd' : discStmts leaf (execStmtG h st σ).1.shutter rest = some s' := by rw [h1]; exact hd
        obtain ⟨h2, g2⟩ := execStmtsG_sound hh rest (execStmtG h st σ).1 s' hd'
        exact ⟨h2, g1.append g2⟩
      · simp at hd
end

end generic

/-! ### the handlers -/

theorem axisTarget_none (a : Bool) (c : Option Rat) : axisTarget a c none = c := by simp [axisTarget]

theorem step_shutter (σ : St) (i : Instr) (h : ∀ a on, i ≠ .pso a on) : (step σ i).1.shutter = σ.shutter := by
  cases i <;> simp [step] <;> (try split) <;> simp_all

theorem step_nonmove (σ : St) (i : Instr) (h : ∀ w, i ≠ .g1 w) : ∀ e ∈ (step σ i).2, ∀ m, e ≠ .move m := by
  cases i <;> simp [step] <;> (try split) <;> simp_all

theorem moveEvents_spec (σ : St) (dst : Pos) (f : Option Rat) (g : Bool) :
    ∀ e ∈ moveEvents σ dst f g, ∀ m, e = .move m → m.shutter = σ.shutter ∧ m.src = σ.pos ∧ m.dst = dst := by
  intro e he m hm
  unfold moveEvents at he
  split at he
  · simp at he
  · simp only [List.mem_singleton] at he
    subst he
    simp only [Ev.move.injEq] at hm
    subst hm
    simp

theorem zTarget_nonmove (σ : St) (w : G1W) : ∀ e ∈ (zTarget σ w).2, ∀ m, e ≠ .move m := by
  unfold zTarget
  split
  · split <;> simp
  · simp

theorem uEvents_nonmove (σ : St) (w : G1W) : ∀ e ∈ uEvents σ w, ∀ m, e ≠ .move m := by
  unfold uEvents; split <;> simp

/-- the single-file handler respects the discipline -/
theorem stepFlat_ok_of_not_farcall (leaf : String → Bool) (σ : St) (i : Instr) (s' : Bool)
    (hd : discAtom leaf σ.shutter i = some s') :
    (stepFlat σ i).1.shutter = s' ∧ Good leaf (stepFlat σ i).2 := by
  unfold stepFlat
  simp only
  cases i
  case pso a on =>
    simp only [discAtom, Option.some.injEq] at hd
    subst hd
    refine ⟨by simp [step], ?_⟩
    simp only [step, List.map_cons, List.map_nil]
    exact Good.ev _ _ (by intro m hm; cases hm) Good.nil
  case g1 w =>
    simp only [discAtom] at hd
    split at hd
    · simp at hd
    · rename_i hcond
      simp only [Option.some.injEq] at hd
      subst hd
      refine ⟨by simp [step], ?_⟩
      simp only [step, List.map_append]
      refine ((Good.ofNonMoves _ (zTarget_nonmove σ w)).append (Good.ofNonMoves _ (uEvents_nonmove σ w))).append ?_
      -- the move itself
      unfold moveEvents
      split
      · exact Good.nil
      · refine Good.ev _ _ ?_ Good.nil
        intro m hm hopen
        simp only [Ev.move.injEq] at hm
        subst hm
        simp only at hopen
        have hnot : ¬ (σ.shutter = true ∧ w.xy = true) := by simpa using hcond
        have hxy : w.xy = false := by
          cases hw : w.xy
          · rfl
          · exact absurd ⟨hopen, hw⟩ hnot
        have hx : w.x = none ∧ w.y = none := by
          simp only [G1W.xy, Bool.or_eq_false_iff] at hxy
          exact ⟨by simpa using hxy.1, by simpa using hxy.2⟩
        simp [hx.1, hx.2, axisTarget_none]
  case farcall p =>
    simp only [discAtom] at hd
    have hs : (step σ (.farcall p)).1.shutter = σ.shutter := step_shutter σ _ (by intro a on h; cases h)
    have hg : Good leaf ((step σ (.farcall p)).2.map .ev) :=
      Good.ofNonMoves _ (step_nonmove σ _ (by intro w h; cases h))
    refine ⟨?_, hg⟩
    rw [hs]
    split at hd
    · simpa using hd
    · split at hd
      · simp at hd
      · rename_i hns
        simp only [Option.some.injEq] at hd
        subst hd
        simpa using hns
  all_goals (
    simp only [discAtom, Option.some.injEq] at hd
    subst hd
    exact ⟨step_shutter σ _ (by intro a on h; cases h), Good.ofNonMoves _ (step_nonmove σ _ (by intro w h; cases h))⟩)

theorem stepFlat_ok (leaf : String → Bool) : HOK leaf stepFlat := fun σ i s' hd => stepFlat_ok_of_not_farcall leaf σ i s' hd

/-- a leaf sub-program never touches the shutter -/
theorem leaf_keeps_shutter (h : Handler) (hg1 : ∀ σ w, h σ (.g1 w) = stepFlat σ (.g1 w)) (hbl : ∀ σ, h σ .blank = stepFlat σ .blank)
    (body : List Stmt) (hl : isLeafBody body = true) (σ : St) : (execStmtsG h body σ).1.shutter = σ.shutter := by
  induction body generalizing σ with
  | nil => simp [execStmtsG]
  | cons s rest ih =>
    rw [execStmtsG]
    simp only [isLeafBody, List.all_cons, Bool.and_eq_true] at hl
    have hrest : isLeafBody rest = true := by simpa [isLeafBody] using hl.2
    rw [ih hrest]
    cases s with
    | atom i =>
      rw [execStmtG]
      cases i with
      | g1 w => rw [hg1]; simp [stepFlat, step]
      | blank => rw [hbl]; simp [stepFlat, step]
      | _ => simp at hl
    | rep _ _ => simp at hl
    | forr _ _ _ _ => simp at hl

/-- the tree is well-formed for the discipline: `leaf` tells the truth about the files known by a name, and every file that
is not a leaf sub-program is a disciplined calling file -/
def TreeOK (leaf : String → Bool) (t : Tree) : Prop :=
  ∀ id body, t.find id = some body →
    leaf (progKey id) = isLeafBody body ∧ (isLeafBody body = true ∨ disciplined leaf body = true)

theorem stepT_flat (t : Tree) (f : Nat) (σ : St) (i : Instr) (h : ∀ p, i ≠ .farcall p) (h2 : ∀ k p, i ≠ .load k p) :
    stepT t f σ i = stepFlat σ i := by
  cases f <;> cases i <;> simp_all [stepT]

theorem stepT_zero_load (t : Tree) (σ : St) (k : Nat) (p : String) : stepT t 0 σ (.load k p) = stepFlat σ (.load k p) := by
  simp [stepT]

theorem farcall_closed_or_leaf {leaf : String → Bool} {s s' : Bool} {p : String}
    (hd : discAtom leaf s (.farcall p) = some s') : s' = s := by
  simp only [discAtom] at hd
  split at hd
  · simpa using hd.symm
  · split at hd
    · simp at hd
    · rename_i hns
      simp only [Option.some.injEq] at hd
      subst hd; simpa using hns

/-- the tree handler respects the discipline at every call depth -/
theorem stepT_ok (leaf : String → Bool) (t : Tree) (ht : TreeOK leaf t) : ∀ f, HOK leaf (stepT t f) := by
  intro f
  induction f with
  | zero =>
    intro σ i s' hd
    by_cases hi : ∃ p, i = .farcall p
    · obtain ⟨p, rfl⟩ := hi
      simp only [stepT]
      exact ⟨(farcall_closed_or_leaf hd).symm ▸ rfl, Good.ev _ _ (by intro m hm; cases hm) Good.nil⟩
    · by_cases hl : ∃ k p, i = .load k p
      · obtain ⟨k, p, rfl⟩ := hl
        rw [stepT_zero_load]
        exact stepFlat_ok leaf σ _ s' hd
      · rw [stepT_flat t 0 σ i (by intro p hp; exact hi ⟨p, hp⟩) (by intro k p hp; exact hl ⟨k, p, hp⟩)]
        exact stepFlat_ok leaf σ i s' hd
  | succ f ih =>
    intro σ i s' hd
    by_cases hi : ∃ p, i = .farcall p
    · obtain ⟨p, rfl⟩ := hi
      have hsame := farcall_closed_or_leaf hd
      simp only [stepT]
      split
      · -- loaded
        split
        · rename_i id body hfind
          have hfind' : t.find id = some body := by
            cases hb : lookupBound σ.bound (progKey p) with
            | none => simp [hb] at hfind
            | some id' =>
              simp only [hb, Option.bind_some, Option.map_eq_some_iff] at hfind
              obtain ⟨b, hb1, hb2⟩ := hfind
              simp only [Prod.mk.injEq] at hb2
              rw [← hb2.1, ← hb2.2]; exact hb1
          obtain ⟨hleaf, hdisc⟩ := ht _ _ hfind'
          split
          · rename_i hkey
            simp only [discAtom] at hd
            by_cases hk : leaf (progKey p) = true
            · simp only [hk, if_true, Option.some.injEq] at hd
              subst hd
              refine ⟨?_, Good.subLeaf _ _ _ _ hk Good.nil⟩
              refine leaf_keeps_shutter _ (fun σ w => stepT_flat t f σ _ (by intro p hp; cases hp) (by intro k p hp; cases hp))
                (fun σ => stepT_flat t f σ _ (by intro p hp; cases hp) (by intro k p hp; cases hp)) body ?_ σ
              rw [← hleaf, hkey]; exact hk
            · have hk' : leaf (progKey p) = false := by simpa using hk
              simp only [hk', Bool.false_eq_true, if_false] at hd
              split at hd
              · simp at hd
              · rename_i hns
                simp only [Option.some.injEq] at hd
                subst hd
                have hclosed : σ.shutter = false := by simpa using hns
                have hbody : disciplined leaf body = true := by
                  rcases hdisc with hl | hd'
                  · rw [← hleaf, hkey, hk'] at hl; simp at hl
                  · exact hd'
                have hd2 : discStmts leaf σ.shutter body = some false := by
                  rw [hclosed]; simpa [disciplined] using hbody
                obtain ⟨h1, g1⟩ := execStmtsG_sound (ih) body σ false hd2
                refine ⟨h1, ?_⟩
                rw [hclosed]
                exact Good.subCall _ _ _ hk' g1 Good.nil
          · exact ⟨hsame.symm ▸ rfl, Good.ev _ _ (by intro m hm; cases hm) Good.nil⟩
        · exact ⟨hsame.symm ▸ rfl, Good.ev _ _ (by intro m hm; cases hm) Good.nil⟩
      · exact ⟨hsame.symm ▸ rfl, Good.ev _ _ (by intro m hm; cases hm) Good.nil⟩
    · by_cases hl : ∃ k p, i = .load k p
      · obtain ⟨k, p, rfl⟩ := hl
        have hflat := stepFlat_ok leaf σ (.load k p) s' hd
        simp only [stepT]
        split
        · exact ⟨hflat.1, hflat.2⟩
        · refine ⟨hflat.1, hflat.2.append (Good.ev _ _ (by intro m hm; cases hm) Good.nil)⟩
      · rw [stepT_flat t (f + 1) σ i (by intro p hp; exact hi ⟨p, hp⟩) (by intro k p hp; exact hl ⟨k, p, hp⟩)]
        exact stepFlat_ok leaf σ i s' hd

end Femto.Ctl

namespace Femto.Ctl

/-! ### the tree interpreter is a conservative extension of the single-file controller -/

theorem execRepG_flat_aux (body : List Stmt)
    (hb : ∀ σ, execStmtsG stepFlat body σ = ((execStmts body σ).1, (execStmts body σ).2.map .ev)) (k : Nat) (σ : St) :
    execRepG stepFlat k body σ = ((execRep k body σ).1, (execRep k body σ).2.map .ev) := by
  induction k generalizing σ with
  | zero => simp [execRepG, execRep]
  | succ k ih =>
    rw [execRepG, execRep]
    simp only [hb, ih, List.map_append]

mutual
  theorem execStmtG_flat (s : Stmt) (σ : St) :
      execStmtG stepFlat s σ = ((execStmt s σ).1, (execStmt s σ).2.map .ev) := by
    match s with
    | .atom i => rw [execStmtG, execStmt]; rfl
    | .rep n body =>
      rw [execStmtG, execStmt]
      exact execRepG_flat_aux body (fun σ => execStmtsG_flat body σ) n σ
    | .forr v lo hi body =>
      rw [execStmtG, execStmt]
      have := execRepG_flat_aux body (fun σ => execStmtsG_flat body σ) (hi - lo + 1).toNat σ
      simp only [this]
      split <;> simp
  theorem execStmtsG_flat (ss : List Stmt) (σ : St) :
      execStmtsG stepFlat ss σ = ((execStmts ss σ).1, (execStmts ss σ).2.map .ev) := by
    match ss with
    | [] => simp [execStmtsG, execStmts]
    | s :: rest =>
      rw [execStmtsG, execStmts]
      simp only [execStmtG_flat s, execStmtsG_flat rest, List.map_append]
end

end Femto.Ctl

namespace Femto.Ctl

/-! ### the wall loop: `REPEAT n { FARCALL wall; $ZCURR = $ZCURR + dz; G1 Z$ZCURR }` raises the focus by `dz` per pass -/

/-- the part of the controller state an x/y-only sub-program cannot touch -/
structure Frame where
  shutter : Bool
  absMode : Bool
  declared : List String
  vals : List (String × Rat)
  loaded : List String
  bound : List (String × String)
  z : Option Rat
  rot : Bool
  dwell : Rat

def St.frame (σ : St) : Frame :=
  ⟨σ.shutter, σ.absMode, σ.declared, σ.vals, σ.loaded, σ.bound, σ.pos.z, σ.rot, σ.dwell⟩

theorem leafXY_frame (h : Handler) (hg1 : ∀ σ w, h σ (.g1 w) = stepFlat σ (.g1 w)) (hbl : ∀ σ, h σ .blank = stepFlat σ .blank)
    (body : List Stmt) (hl : isLeafXY body = true) (σ : St) : (execStmtsG h body σ).1.frame = σ.frame := by
  induction body generalizing σ with
  | nil => simp [execStmtsG]
  | cons s rest ih =>
    rw [execStmtsG]
    simp only [isLeafXY, List.all_cons, Bool.and_eq_true] at hl
    have hrest : isLeafXY rest = true := by simpa [isLeafXY] using hl.2
    rw [ih hrest]
    cases s with
    | atom i =>
      rw [execStmtG]
      cases i with
      | g1 w =>
        rw [hg1]
        have hw := hl.1
        simp only [Bool.and_eq_true, Option.isNone_iff_eq_none] at hw
        obtain ⟨⟨hz, hzv⟩, hu⟩ := hw
        simp [stepFlat, step, St.frame, zTarget, hz, hzv, axisTarget_none]
      | blank => rw [hbl]; simp [stepFlat, step, St.frame]
      | _ => simp at hl
    | rep _ _ => simp at hl
    | forr _ _ _ _ => simp at hl

/-- the state in which a wall pass at depth `z` starts: absolute mode, the wall program loaded and bound to an x/y-only file
of the tree, `$ZCURR = z`, the focus at `z` -/
structure Ready (t : Tree) (p : String) (z : Rat) (σ : St) : Prop where
  abs : σ.absMode = true
  loaded : σ.loaded.contains (progKey p) = true
  bound : ∃ id body, lookupBound σ.bound (progKey p) = some id ∧ t.find id = some body ∧ progKey id = progKey p ∧ isLeafXY body = true
  val : lookupVar σ.vals "zcurr" = some z
  posz : σ.pos.z = some z

theorem lookup_setVal (vals : List (String × Rat)) (v : String) (q : Rat) : lookupVar (setVal vals v q) v = some q := by
  simp [lookupVar, setVal]

/-- one pass: the wall is traced at the current depth, then the variable and the focus go up by `dz` -/
theorem wall_iteration (t : Tree) (f : Nat) (p : String) (dz z : Rat) (σ : St) (h : Ready t p z σ) :
    Ready t p (z + dz) (execStmtsG (stepT t (f + 1)) (wallLoopBody p dz) σ).1 := by
  obtain ⟨id, body, hb, hfind, hkey, hleaf⟩ := h.bound
  -- the call
  have hcall : (stepT t (f + 1) σ (.farcall p)).1.frame = σ.frame := by
    simp only [stepT, h.loaded, if_true, hb, Option.bind_some, hfind, Option.map_some, hkey]
    exact leafXY_frame _ (fun σ w => stepT_flat t f σ _ (by intro p hp; cases hp) (by intro k p hp; cases hp))
      (fun σ => stepT_flat t f σ _ (by intro p hp; cases hp) (by intro k p hp; cases hp)) body hleaf σ
  set σ1 := (stepT t (f + 1) σ (.farcall p)).1 with hσ1
  have e1 : σ1.vals = σ.vals := congrArg Frame.vals hcall
  have e2 : σ1.absMode = σ.absMode := congrArg Frame.absMode hcall
  have e3 : σ1.loaded = σ.loaded := congrArg Frame.loaded hcall
  have e4 : σ1.bound = σ.bound := congrArg Frame.bound hcall
  have e5 : σ1.pos.z = σ.pos.z := congrArg Frame.z hcall
  -- the increment
  have hinc : stepT t (f + 1) σ1 (.incVar "zcurr" dz) = ({ σ1 with vals := setVal σ1.vals "zcurr" (z + dz) }, []) := by
    rw [stepT_flat t (f + 1) σ1 _ (by intro p hp; cases hp) (by intro k p hp; cases hp)]
    simp [stepFlat, step, e1, h.val]
  set σ2 : St := { σ1 with vals := setVal σ1.vals "zcurr" (z + dz) } with hσ2
  -- the move
  have hmove : (stepT t (f + 1) σ2 (.g1 { zvar := some "ZCURR" })).1 =
      { σ2 with pos := { x := σ2.pos.x, y := σ2.pos.y, z := some (z + dz) }, feed := σ2.feed } := by
    rw [stepT_flat t (f + 1) σ2 _ (by intro p hp; cases hp) (by intro k p hp; cases hp)]
    have hl : lower "ZCURR" = "zcurr" := by decide
    have habs : σ2.absMode = true := by simp [hσ2, e2, h.abs]
    simp [stepFlat, step, zTarget, hl, hσ2, lookup_setVal, axisTarget, axisTarget_none, e2, h.abs]
  have hrun : (execStmtsG (stepT t (f + 1)) (wallLoopBody p dz) σ).1 =
      { σ2 with pos := { x := σ2.pos.x, y := σ2.pos.y, z := some (z + dz) }, feed := σ2.feed } := by
    simp only [wallLoopBody, execStmtsG, execStmtG]
    rw [← hσ1, hinc, hmove]
  rw [hrun]
  exact {
    abs := by simp [hσ2, e2, h.abs]
    loaded := by have := h.loaded; simpa [hσ2, e3] using this
    bound := ⟨id, body, by simp [hσ2, e4, hb], hfind, hkey, hleaf⟩
    val := by simp [hσ2, lookup_setVal]
    posz := rfl }

theorem execRepG_wall (t : Tree) (f : Nat) (p : String) (dz : Rat) (n : Nat) (z : Rat) (σ : St) (h : Ready t p z σ) :
    Ready t p (z + n * dz) (execRepG (stepT t (f + 1)) n (wallLoopBody p dz) σ).1 := by
  induction n generalizing z σ with
  | zero =>
    have e : z + ((0 : Nat) : Rat) * dz = z := by push_cast; ring
    rw [e]; simpa [execRepG] using h
  | succ n ih =>
    rw [execRepG]
    have h1 := wall_iteration t f p dz z σ h
    have h2 := ih (z + dz) _ h1
    have e : z + dz + (n : Rat) * dz = z + ((n + 1 : Nat) : Rat) * dz := by push_cast; ring
    rw [e] at h2
    exact h2

theorem ready_dwell (t : Tree) (f : Nat) (p : String) (z q : Rat) (σ : St) (h : Ready t p z σ) :
    Ready t p z (stepT t (f + 1) σ (.dwell q)).1 := by
  rw [stepT_flat t (f + 1) σ _ (by intro p hp; cases hp) (by intro k p hp; cases hp)]
  simp only [stepFlat, step]
  exact ⟨h.abs, h.loaded, h.bound, h.val, h.posz⟩

theorem wall_iterationD (t : Tree) (f : Nat) (q : Rat) (p : String) (dz z : Rat) (σ : St) (h : Ready t p z σ) :
    Ready t p (z + dz) (execStmtsG (stepT t (f + 1)) (wallLoopBodyD q p dz) σ).1 := by
  have h0 := ready_dwell t f p z q σ h
  have h1 := wall_iteration t f p dz z _ h0
  simpa [wallLoopBodyD, execStmtsG, execStmtG] using h1

theorem execRepG_wallD (t : Tree) (f : Nat) (q : Rat) (p : String) (dz : Rat) (n : Nat) (z : Rat) (σ : St) (h : Ready t p z σ) :
    Ready t p (z + n * dz) (execRepG (stepT t (f + 1)) n (wallLoopBodyD q p dz) σ).1 := by
  induction n generalizing z σ with
  | zero =>
    have e : z + ((0 : Nat) : Rat) * dz = z := by push_cast; ring
    rw [e]; simpa [execRepG] using h
  | succ n ih =>
    rw [execRepG]
    have h1 := wall_iterationD t f q p dz z σ h
    have h2 := ih (z + dz) _ h1
    have e : z + dz + (n : Rat) * dz = z + ((n + 1 : Nat) : Rat) * dz := by push_cast; ring
    rw [e] at h2
    exact h2

end Femto.Ctl

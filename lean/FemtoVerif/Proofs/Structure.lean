/-
Helper lemmas about the loop-structure parser of the reference controller:
`structure?` inverts `flattenStmts` on every structured program whose atoms are not loop delimiters.
-/
import FemtoVerif.Spec.Controller
import Mathlib.Tactic.Ring
import Mathlib.Tactic.Linarith
import Mathlib.Data.Rat.Defs
import Mathlib.Tactic.FieldSimp
import Mathlib.Tactic.Push

namespace Femto.Ctl

mutual
  /-- no atom of the statement is a loop delimiter -/
  def Stmt.clean : Stmt → Bool
    | .atom i => !i.isDelim
    | .rep _ body => cleanList body
    | .forr _ _ _ body => cleanList body
  def cleanList : List Stmt → Bool
    | [] => true
    | s :: ss => s.clean && cleanList ss
end

theorem cleanList_append (a b : List Stmt) : cleanList (a ++ b) = (cleanList a && cleanList b) := by
  induction a with
  | nil => simp [cleanList]
  | cons s ss ih => simp [cleanList, ih, Bool.and_assoc]

theorem structGo_atom (i : Instr) (h : i.isDelim = false) (rest : List Instr) (cur : List Stmt)
    (stk : List (Hdr × List Stmt)) : structGo (i :: rest) cur stk = structGo rest (.atom i :: cur) stk := by
  cases i <;> simp_all [structGo, Instr.isDelim]

mutual
  theorem structGo_flattenStmt (s : Stmt) (h : s.clean = true) (rest : List Instr) (cur : List Stmt)
      (stk : List (Hdr × List Stmt)) :
      structGo (flattenStmt s ++ rest) cur stk = structGo rest (s :: cur) stk := by
    match s, h with
    | .atom i, h =>
      simp only [flattenStmt, List.cons_append, List.nil_append]
      exact structGo_atom i (by simpa [Stmt.clean] using h) rest cur stk
    | .rep n body, h =>
      simp only [flattenStmt, List.cons_append, List.append_assoc, structGo]
      rw [structGo_flattenStmts body (by simpa [Stmt.clean] using h)]
      simp [structGo]
    | .forr v lo hi body, h =>
      simp only [flattenStmt, List.cons_append, List.append_assoc, structGo]
      rw [structGo_flattenStmts body (by simpa [Stmt.clean] using h)]
      simp [structGo]
  theorem structGo_flattenStmts (ss : List Stmt) (h : cleanList ss = true) (rest : List Instr) (cur : List Stmt)
      (stk : List (Hdr × List Stmt)) :
      structGo (flattenStmts ss ++ rest) cur stk = structGo rest (ss.reverse ++ cur) stk := by
    match ss, h with
    | [], _ => simp [flattenStmts]
    | s :: ss, h =>
      have h' : s.clean = true ∧ cleanList ss = true := by simpa [cleanList] using h
      simp only [flattenStmts, List.append_assoc]
      rw [structGo_flattenStmt s h'.1, structGo_flattenStmts ss h'.2]
      simp
end

/-- **the parser inverts flattening**: a flattened structured program is balanced and properly nested, and its
loop structure is the one it was flattened from -/
theorem structure?_flattenStmts (ss : List Stmt) (h : cleanList ss = true) :
    structure? (flattenStmts ss) = some ss := by
  have := structGo_flattenStmts ss h [] [] []
  simp only [List.append_nil] at this
  simp [structure?, this, structGo]

/-! dwell of concatenations -/

theorem dwellOfList_append (a b : List Stmt) : dwellOfList (a ++ b) = dwellOfList a + dwellOfList b := by
  induction a with
  | nil => simp [dwellOfList]
  | cons s ss ih => simp [dwellOfList, ih, add_assoc]

end Femto.Ctl

/-
The whole session (`__enter__` … operations … `__exit__`) emits a clean structured program whose dwell content is the
reported total.  Shared by C03 (balance) and C12 (dwell accounting).
-/
import FemtoVerif.Proofs.Exec

set_option linter.unusedSimpArgs false
set_option linter.unusedVariables false

namespace Femto.Gc
open Femto.Ctl

/-- what a whole session writes is a clean structured program whose dwell content is the reported total -/
theorem session_ok (cfg : Cfg) (ops : List Op) (hh : headerClean cfg.header = true) :
    cleanList (session cfg ops).1 = true ∧ dwellOfList (session cfg ops).1 = (session cfg ops).2.dwellTotal := by
  have hhd : ∀ i ∈ cfg.header ++ [Instr.blank], i.isDelim = false ∧ instrDwell i = 0 := by
    intro i hi
    rcases List.mem_append.mp hi with h | h
    · have := (List.all_eq_true.mp hh) i h
      simp only [Bool.and_eq_true, Bool.not_eq_true', decide_eq_true_eq] at this
      exact ⟨this.1.1, this.1.2⟩
    · simp at h; subst h; simp [Instr.isDelim, instrDwell]
  -- header part
  have h0 : OutOK ({} : CS) (seq (seq (emit (cfg.header ++ [.blank]), ({} : CS)) (dwell (some 1))) fun cs => (emit [.blank], cs)) :=
    seq_ok (seq_ok (pure_ok _ _ (fun i hi => (hhd i hi).1) (fun i hi => (hhd i hi).2)) (dwell_ok _))
      (fun c => pure_ok c [.blank] (by simp [Instr.isDelim]) (by simp [instrDwell]))
  simp only [session]
  generalize hH : (seq (seq (emit (cfg.header ++ [.blank]), ({} : CS)) (dwell (some 1))) fun cs => (emit [.blank], cs)) = H at h0
  have h1 : OutOK ({} : CS) (if cfg.aeroAngle = 0 then H else seq H (enterRot cfg (some cfg.aeroAngle))) := by
    split
    · exact h0
    · exact seq_ok h0 (enterRot_ok cfg _)
  generalize (if cfg.aeroAngle = 0 then H else seq H (enterRot cfg (some cfg.aeroAngle))) = H1 at h1
  obtain ⟨r1, r2, r3, r4⟩ := execOps_ok cfg ops H1.2
  generalize execOps cfg ops H1.2 = r at r1 r2 r3 r4
  have hx : OutOK r.cs (if cfg.aeroAngle = 0 then (([] : List Stmt), r.cs)
      else seq (exitRot cfg r.cs) fun cs => (emit [.blank], cs)) := by
    split
    · exact OutOK.nil _
    · exact seq_ok (exitRot_ok cfg _) (fun c => pure_ok c [.blank] (by simp [Instr.isDelim]) (by simp [instrDwell]))
  generalize (if cfg.aeroAngle = 0 then (([] : List Stmt), r.cs)
      else seq (exitRot cfg r.cs) fun cs => (emit [.blank], cs)) = X at hx
  have hg : OutOK X.2 (if cfg.home = true then
      ((moveTo cfg (some (-2)) (some 0) (some 0) none X.2).1.1, (moveTo cfg (some (-2)) (some 0) (some 0) none X.2).1.2)
      else ([], X.2)) := by
    split
    · exact moveTo_ok cfg _ _ _ _ X.2
    · exact OutOK.nil _
  generalize (if cfg.home = true then
      ((moveTo cfg (some (-2)) (some 0) (some 0) none X.2).1.1, (moveTo cfg (some (-2)) (some 0) (some 0) none X.2).1.2)
      else ([], X.2)) = Gm at hg
  obtain ⟨a1, a2⟩ := h1
  obtain ⟨x1, x2⟩ := hx
  obtain ⟨g1, g2⟩ := hg
  refine ⟨?_, ?_⟩
  · simp [cleanList_append, a1, r1, r2, x1, g1]
  · simp only [dwellOfList_append, a2, r3, r4, x2, g2]
    ring


end Femto.Gc

/-
Rounding of printed numbers: `fmt d q` (= CPython's `format(q, '.{d}f')` on the exact value) is within half a unit of the
last printed decimal, and a feed that passes the guard is printed as a positive number.
-/
import FemtoVerif.Model.Gcode
import Mathlib.Tactic.Ring
import Mathlib.Tactic.Linarith
import Mathlib.Tactic.FieldSimp
import Mathlib.Tactic.Positivity
import Mathlib.Data.Rat.Defs
import Mathlib.Algebra.Order.Field.Basic
import Mathlib.Algebra.Order.AbsoluteValue.Basic

namespace Femto.Gc


theorem roundHalfEven_error (q : Rat) : |(roundHalfEven q : Rat) - q| ≤ 1 / 2 := by
  unfold roundHalfEven
  have h1 : ((q.floor : Int) : Rat) ≤ q := Rat.floor_le q
  have h2 : q < (q.floor : Rat) + 1 := by
    have := Rat.lt_floor_add_one q; push_cast at this; exact this
  simp only
  split
  · rw [abs_le]; constructor <;> linarith
  · split
    · rw [abs_le]; push_cast; constructor <;> linarith
    · have : q - q.floor = 1 / 2 := by
        rename_i h3 h4; push Not at h3 h4; linarith
      split
      · rw [abs_le]; constructor <;> linarith
      · rw [abs_le]; push_cast; constructor <;> linarith

/-- the printed value is within half a unit of the last printed decimal of the exact value -/
theorem fmt_error (d : Nat) (q : Rat) : |fmt d q - q| ≤ 1 / (2 * pow10 d) := by
  have hp : (0 : Rat) < pow10 d := by unfold pow10; positivity
  have := roundHalfEven_error (q * pow10 d)
  unfold fmt
  have e : (roundHalfEven (q * pow10 d) : Rat) / pow10 d - q = ((roundHalfEven (q * pow10 d) : Rat) - q * pow10 d) / pow10 d := by
    field_simp
  rw [e, abs_div, abs_of_pos hp, div_le_div_iff₀ hp (by positivity)]
  calc |(roundHalfEven (q * pow10 d) : Rat) - q * pow10 d| * (2 * pow10 d)
      ≤ 1 / 2 * (2 * pow10 d) := by apply mul_le_mul_of_nonneg_right this (by positivity)
    _ = 1 * pow10 d := by ring


theorem pow10_pos (d : Nat) : (0 : Rat) < pow10 d := by unfold pow10; positivity

/-- a feed that passes the guard `f ≥ 10^-d` is printed as a positive number -/
theorem fmt_pos (d : Nat) (f : Rat) (h : ¬ f < 1 / pow10 d) : 0 < fmt d f := by
  have hp := pow10_pos d
  have h1 : 1 ≤ f * pow10 d := by
    have : 1 / pow10 d ≤ f := not_lt.mp h
    calc (1 : Rat) = 1 / pow10 d * pow10 d := by field_simp
      _ ≤ f * pow10 d := mul_le_mul_of_nonneg_right this (le_of_lt hp)
  have h2 := roundHalfEven_error (f * pow10 d)
  rw [abs_le] at h2
  have h3 : (0 : Rat) < (roundHalfEven (f * pow10 d) : Rat) := by linarith [h2.1]
  unfold fmt
  exact div_pos h3 hp

end Femto.Gc

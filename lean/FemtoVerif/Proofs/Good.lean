/-
Every atom the compiler model emits is a known instruction, not a loop delimiter, and carries a positive feed if it
carries one ("every feed is positive and every number finite": an `Instr` holds exact rationals, so finiteness is
being a parsed instruction at all).
-/
import FemtoVerif.Proofs.GcLemmas
import FemtoVerif.Proofs.Fmt

set_option linter.unusedSimpArgs false
set_option linter.unusedVariables false

namespace Femto.Gc
open Femto.Ctl

def goodInstr : Instr → Bool
  | .bad _ => false
  | .rep _ | .endrep | .forr .. | .next _ => false
  | .g1 w => (match w.f with | some f => decide (0 < f) | none => true)
  | _ => true

mutual
  def goodStmt : Stmt → Bool
    | .atom i => goodInstr i
    | .rep n body => decide (0 < n) && goodList body
    | .forr _ lo hi body => decide (lo ≤ hi) && goodList body
  def goodList : List Stmt → Bool
    | [] => true
    | s :: ss => goodStmt s && goodList ss
end

theorem goodList_append (a b : List Stmt) : goodList (a ++ b) = (goodList a && goodList b) := by
  induction a with
  | nil => simp [goodList]
  | cons s ss ih => simp [goodList, ih, Bool.and_assoc]

theorem goodList_emit (is : List Instr) (h : ∀ i ∈ is, goodInstr i = true) : goodList (emit is) = true := by
  induction is with
  | nil => simp [emit, goodList]
  | cons i is ih =>
    simp only [emit, List.map_cons, goodList, goodStmt, Bool.and_eq_true]
    exact ⟨h i (by simp), by simpa [emit] using ih (fun j hj => h j (by simp [hj]))⟩

theorem seq_good {a : Out} {f : CS → Out} (ha : goodList a.1 = true) (hf : ∀ c, goodList (f c).1 = true) :
    goodList (seq a f).1 = true := by
  simp [seq, goodList_append, ha, hf]

theorem dwell_good (p : Option Rat) (cs : CS) : goodList (dwell p cs).1 = true := by
  unfold dwell
  cases p with
  | none => simp [goodList]
  | some t => by_cases h : t = 0 <;> simp [h, goodList, emit, goodStmt, goodInstr]

theorem shutter_good (cfg : Cfg) (on : Bool) (cs : CS) : goodList (shutter cfg on cs).1 = true := by
  unfold shutter
  split
  · simp [goodList, emit, goodStmt, goodInstr]
  · split <;> simp [goodList, emit, goodStmt, goodInstr]

theorem toggle_good (cfg : Cfg) (on : Bool) (cs : CS) : goodList (toggle cfg on cs).1 = true := by
  unfold toggle
  refine seq_good (seq_good (seq_good (by simp [goodList, emit, goodStmt, goodInstr]) (dwell_good _)) (shutter_good cfg on)) ?_
  intro c
  exact seq_good (dwell_good _ c) (fun c' => by simp [goodList, emit, goodStmt, goodInstr])

theorem formatArgs_feed_pos (d : Nat) (x y z : Option Rat) (f : Rat) (w : G1W)
    (h : formatArgs d x y z (some f) = .ok w) : goodInstr (.g1 w) = true := by
  unfold formatArgs at h
  simp only at h
  split at h
  · cases h
  · rename_i hf
    injection h with h; subst h
    simp [goodInstr, fmt_pos d f hf]

theorem writeLoop_good (cfg : Cfg) (prev : Option G1W) (ws : List (G1W × Rat)) (cs : CS)
    (hw : ∀ p ∈ ws, goodInstr (.g1 p.1) = true) : goodList (writeLoop cfg prev ws cs).1 = true := by
  induction ws generalizing prev cs with
  | nil => simp [writeLoop, goodList]
  | cons hd rest ih =>
    obtain ⟨w, s⟩ := hd
    simp only [writeLoop, goodList_append, Bool.and_eq_true]
    refine ⟨⟨?_, ?_⟩, ih _ _ (fun p hp => hw p (by simp [hp]))⟩
    · unfold toggleStep
      split
      · exact toggle_good cfg false cs
      · split
        · exact toggle_good cfg true cs
        · simp [goodList]
    · unfold maybeG1
      split
      · exact goodList_emit _ (by simpa using hw (w, s) (by simp))
      · simp [goodList]

theorem write_good (cfg : Cfg) (m : List Pt) (cs : CS) (o : Out) (h : write cfg m cs = .ok o) : goodList o.1 = true := by
  unfold write at h
  cases hm : m.mapM (formatPt cfg) with
  | error e => rw [hm] at h; simp [Except.map] at h
  | ok ws =>
    rw [hm] at h
    simp only [Except.map] at h
    injection h with h; subst h
    have hw : ∀ p ∈ ws, goodInstr (.g1 p.1) = true := by
      induction m generalizing ws with
      | nil => simp [List.mapM_nil, pure, Except.pure] at hm; subst hm; simp
      | cons p m ih =>
        rw [List.mapM_cons] at hm
        cases hp : formatPt cfg p with
        | error e => rw [hp] at hm; simp [bind, Except.bind] at hm
        | ok a =>
          rw [hp] at hm
          cases hm' : m.mapM (formatPt cfg) with
          | error e => rw [hm'] at hm; simp [bind, Except.bind] at hm
          | ok as =>
            rw [hm'] at hm
            simp only [bind, Except.bind, pure, Except.pure] at hm
            injection hm with hm; subst hm
            intro q hq
            rcases List.mem_cons.mp hq with rfl | hq
            · simp only [formatPt] at hp
              cases hf : formatArgs cfg.digits (some (transform cfg p.x p.y p.z).1) (some (transform cfg p.x p.y p.z).2.1)
                  (some (transform cfg p.x p.y p.z).2.2) (some p.f) with
              | error e => rw [hf] at hp; simp [Except.map] at hp
              | ok w =>
                rw [hf] at hp; simp only [Except.map] at hp
                injection hp with hp; subst hp
                exact formatArgs_feed_pos _ _ _ _ _ _ hf
            · exact ih as hm' q hq
    exact seq_good (seq_good (writeLoop_good cfg none ws cs hw) (dwell_good _))
      (fun c => by simp [goodList, emit, goodStmt, goodInstr])

theorem closeIfOpen_good (cfg : Cfg) (cs : CS) : goodList (closeIfOpen cfg cs).1 = true := by
  unfold closeIfOpen
  split
  · exact shutter_good cfg false cs
  · simp [goodList]

theorem moveTo_good (cfg : Cfg) (x y z sp : Option Rat) (cs : CS) : goodList (moveTo cfg x y z sp cs).1.1 = true := by
  unfold moveTo
  cases hf : formatArgs cfg.digits x y z (some (sp.getD cfg.speedPos)) with
  | error e => exact closeIfOpen_good cfg cs
  | ok w =>
    refine seq_good (seq_good (closeIfOpen_good cfg cs) (fun c => goodList_emit _ ?_)) ?_
    · intro i hi; simp at hi; subst hi; exact formatArgs_feed_pos _ _ _ _ _ _ hf
    · intro c
      exact seq_good (dwell_good _ c) (fun c' => by simp [goodList, emit, goodStmt, goodInstr])

theorem comment_good (b : Bool) (cs : CS) : goodList (comment b cs).1 = true := by
  unfold comment; split <;> simp [goodList, emit, goodStmt, goodInstr]

/-- the configured positioning speed is a valid feed -/
def speedOK (cfg : Cfg) : Prop := 0 < fmt 6 cfg.speedPos

theorem enterRot_good (cfg : Cfg) (h : speedOK cfg) (a : Option Rat) (cs : CS) : goodList (enterRot cfg a cs).1 = true := by
  unfold enterRot
  have h1 : goodList (seq (seq (comment true cs) fun cs => (emit [.g1 (originW cfg), .g84 none], cs)) (dwell cfg.shortPause)).1 = true :=
    seq_good (seq_good (comment_good true cs) (fun c => by
      simp only [goodList, emit, List.map, goodStmt, goodInstr, originW, Bool.and_true, decide_eq_true_eq]; exact h)) (dwell_good _)
  split
  · exact h1
  · exact seq_good (seq_good h1 (fun c => by simp [goodList, emit, goodStmt, goodInstr])) (dwell_good _)

theorem exitRot_good (cfg : Cfg) (h : speedOK cfg) (cs : CS) : goodList (exitRot cfg cs).1 = true := by
  unfold exitRot
  exact seq_good (seq_good (comment_good true cs) (fun c => by
      simp only [goodList, emit, List.map, goodStmt, goodInstr, originW, Bool.and_true, decide_eq_true_eq]; exact h)) (dwell_good _)

def ResGood (r : Res) : Prop := goodList r.out = true ∧ goodList r.pre = true

theorem ResGood.ofOut {o : Out} (h : goodList o.1 = true) : ResGood (Res.ofOut o) := ⟨h, by simp [Res.ofOut, goodList]⟩

theorem ResGood.stop (cs : CS) (e : Option Err) : ResGood { cs := cs, err := e } := by simp [ResGood, goodList]

theorem andThen_good {a : Res} {f : CS → Res} (ha : ResGood a) (hf : ∀ c, ResGood (f c)) : ResGood (a.andThen f) := by
  unfold Res.andThen
  cases a.err with
  | some e => exact ha
  | none =>
    obtain ⟨a1, a2⟩ := ha
    obtain ⟨b1, b2⟩ := hf a.cs
    exact ⟨by simp [goodList_append, a1, b1], by simp [goodList_append, a2, b2]⟩

theorem loadOp_good (p : String) (t : Nat) (cs : CS) : ResGood (loadOp p t cs) := by
  unfold loadOp; split
  · exact ResGood.stop cs _
  · exact ⟨by simp [goodList, emit, goodStmt, goodInstr], by simp [goodList]⟩

theorem removeOp_good (p : String) (t : Nat) (cs : CS) : ResGood (removeOp p t cs) := by
  unfold removeOp; split
  · exact ResGood.stop cs _
  · split
    · exact ResGood.stop cs _
    · exact ⟨by simp [goodList, emit, goodStmt, goodInstr], by simp [goodList]⟩

theorem farcallOp_good (cfg : Cfg) (p : String) (cs : CS) : ResGood (farcallOp cfg p cs) := by
  unfold farcallOp; split
  · exact ResGood.stop cs _
  · split
    · exact ResGood.stop cs _
    · exact ResGood.ofOut (seq_good (dwell_good _ cs) (fun c => by simp [goodList, emit, goodStmt, goodInstr]))

theorem bufferedOp_good (cfg : Cfg) (p : String) (t : Nat) (cs : CS) : ResGood (bufferedOp cfg p t cs) := by
  unfold bufferedOp; split
  · exact ResGood.stop cs _
  · split
    · exact ResGood.stop cs _
    · exact ResGood.ofOut (seq_good (dwell_good _ cs) (fun c => by simp [goodList, emit, goodStmt, goodInstr]))

theorem farcallListOp_good (cfg : Cfg) (items : List (String × Nat)) (cs : CS) : ResGood (farcallListOp cfg items cs) := by
  induction items generalizing cs with
  | nil => exact ResGood.stop cs none
  | cons hd rest ih =>
    obtain ⟨p, t⟩ := hd
    simp only [farcallListOp]
    refine andThen_good (andThen_good (andThen_good (andThen_good (loadOp_good p t cs) (farcallOp_good cfg _))
      (fun c => ResGood.ofOut (dwell_good _ c))) (removeOp_good _ t)) ?_
    intro c
    exact andThen_good (ResGood.ofOut (seq_good (dwell_good _ c)
      (fun c' => by simp [goodList, emit, goodStmt, goodInstr]))) (fun c' => ih c')

theorem moveRes_good (cfg : Cfg) (x y z sp : Option Rat) (cs : CS) :
    ResGood (let r := moveTo cfg x y z sp cs; ({ out := r.1.1, cs := r.1.2, err := r.2 } : Res)) :=
  ⟨moveTo_good cfg x y z sp cs, by simp [goodList]⟩

mutual
  theorem execOp_good (cfg : Cfg) (hsp : speedOK cfg) (op : Op) (cs : CS) : ResGood (execOp cfg op cs) := by
    match op with
    | .write m =>
      simp only [execOp]
      cases h : write cfg m cs with
      | ok o => exact ResGood.ofOut (write_good cfg m cs o h)
      | error e => exact ResGood.stop cs _
    | .moveTo x y z sp => simp only [execOp]; exact moveRes_good cfg x y z sp cs
    | .goOrigin =>
      simp only [execOp]
      exact andThen_good (ResGood.ofOut (comment_good true cs)) (fun c => moveRes_good cfg _ _ _ _ c)
    | .goInit => simp only [execOp]; exact moveRes_good cfg _ _ _ _ cs
    | .dwell p => simp only [execOp]; exact ResGood.ofOut (dwell_good p cs)
    | .comment b => simp only [execOp]; exact ResGood.ofOut (comment_good b cs)
    | .setHome x y z =>
      simp only [execOp]
      split
      · exact ResGood.stop cs _
      · exact ⟨by simp [goodList, emit, goodStmt, goodInstr], by simp [goodList]⟩
    | .rep n body =>
      simp only [execOp]
      split
      · exact ResGood.stop cs _
      · rename_i hn
        obtain ⟨h1, h2⟩ := execOps_good cfg hsp body cs
        refine ⟨?_, h2⟩
        simp only [goodList, goodStmt, goodInstr, h1, Bool.and_true, decide_eq_true_eq]
        omega
    | .forr v n body =>
      simp only [execOp]
      split
      · exact ResGood.stop cs _
      · split
        · exact ResGood.stop cs _
        · rename_i hn _
          obtain ⟨h1, h2⟩ := execOps_good cfg hsp body cs
          refine ⟨?_, h2⟩
          simp only [goodList, goodStmt, goodInstr, h1, Bool.and_true, decide_eq_true_eq]
          omega
    | .axisRot a body =>
      simp only [execOp]
      obtain ⟨h1, h2⟩ := execOps_good cfg hsp body (enterRot cfg a cs).2
      exact ⟨by simp [goodList_append, enterRot_good cfg hsp a cs, h1, exitRot_good cfg hsp _], h2⟩
    | .dvar vs =>
      simp only [execOp]
      exact ⟨by simp [goodList], by simp [goodList, emit, goodStmt, goodInstr]⟩
    | .load p t => simp only [execOp]; exact loadOp_good p t cs
    | .farcall p => simp only [execOp]; exact farcallOp_good cfg p cs
    | .buffered p t => simp only [execOp]; exact bufferedOp_good cfg p t cs
    | .remove p t => simp only [execOp]; exact removeOp_good p t cs
    | .farcallList items => simp only [execOp]; exact farcallListOp_good cfg items cs
    | .raise => simp only [execOp]; exact ResGood.stop cs _
    | .attempt body => simp only [execOp]; exact execOps_good cfg hsp body cs
    | .loadBad p => simp only [execOp]; exact ResGood.stop cs _
  theorem execOps_good (cfg : Cfg) (hsp : speedOK cfg) (ops : List Op) (cs : CS) : ResGood (execOps cfg ops cs) := by
    match ops with
    | [] => simp only [execOps]; exact ResGood.stop cs none
    | op :: ops =>
      simp only [execOps]
      have ha := execOp_good cfg hsp op cs
      cases he : (execOp cfg op cs).err with
      | some e => simpa [he] using ha
      | none =>
        simp only [he]
        obtain ⟨a1, a2⟩ := ha
        obtain ⟨b1, b2⟩ := execOps_good cfg hsp ops (execOp cfg op cs).cs
        exact ⟨by simp [goodList_append, a1, b1], by simp [goodList_append, a2, b2]⟩
end

end Femto.Gc

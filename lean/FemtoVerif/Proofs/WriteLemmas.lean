/-
Helper lemmas for C01: what the reference controller does with the instruction blocks emitted by `write`.
-/
import FemtoVerif.Proofs.Exec
import FemtoVerif.Spec.C01

namespace Femto.Gc
open Femto.Ctl

/-- instructions that neither move, nor change mode, shutter or position -/
def quiet : Instr → Bool
  | .blank | .comment _ | .dwell _ | .setup _ | .msg => true
  | _ => false

theorem step_quiet (σ : St) (i : Instr) (h : quiet i = true) :
    (step σ i).1.pos = σ.pos ∧ (step σ i).1.absMode = σ.absMode ∧ (step σ i).1.shutter = σ.shutter ∧
      movesOf (step σ i).2 = [] := by
  cases i <;> simp_all [quiet, step, movesOf]

theorem execFlat_quiet (is : List Instr) (h : ∀ i ∈ is, quiet i = true) (σ : St) :
    (execFlat is σ).1.pos = σ.pos ∧ (execFlat is σ).1.absMode = σ.absMode ∧ (execFlat is σ).1.shutter = σ.shutter ∧
      movesOf (execFlat is σ).2 = [] := by
  induction is generalizing σ with
  | nil => simp [execFlat, movesOf]
  | cons i is ih =>
    obtain ⟨a1, a2, a3, a4⟩ := step_quiet σ i (h i (by simp))
    obtain ⟨b1, b2, b3, b4⟩ := ih (fun j hj => h j (by simp [hj])) (step σ i).1
    simp only [execFlat]
    refine ⟨by rw [b1, a1], by rw [b2, a2], by rw [b3, a3], ?_⟩
    rw [movesOf_append, a4, b4]; rfl

theorem dwell_quiet (p : Option Rat) (cs : CS) :
    (∀ i ∈ flattenStmts (dwell p cs).1, quiet i = true) ∧ (dwell p cs).2.shutterOn = cs.shutterOn := by
  unfold dwell
  cases p with
  | none => simp [flattenStmts]
  | some t =>
    by_cases h : t = 0
    · simp [h, flattenStmts]
    · simp [h, flattenStmts_emit, quiet]

/-- shape of the toggle block when the shutter really has to change -/
theorem toggle_shape (cfg : Cfg) (on : Bool) (cs : CS) (h : cs.shutterOn = !on) :
    ∃ A B, flattenStmts (toggle cfg on cs).1 = A ++ [Instr.pso cfg.psoAxis on] ++ B ∧
      (∀ i ∈ A, quiet i = true) ∧ (∀ i ∈ B, quiet i = true) ∧ (toggle cfg on cs).2.shutterOn = on := by
  obtain ⟨q1, s1⟩ := dwell_quiet cfg.shortPause cs
  set c1 := (dwell cfg.shortPause cs).2 with hc1
  have hsh : shutter cfg on c1 = (emit [.pso cfg.psoAxis on], { c1 with shutterOn := on }) := by
    unfold shutter
    cases on <;> simp_all
  set c2 : CS := { c1 with shutterOn := on } with hc2
  obtain ⟨q2, s2⟩ := dwell_quiet cfg.longPause c2
  refine ⟨[.blank] ++ flattenStmts (dwell cfg.shortPause cs).1, flattenStmts (dwell cfg.longPause c2).1 ++ [.blank], ?_, ?_, ?_, ?_⟩
  · simp only [toggle, seq, flattenStmts_append, flattenStmts_emit, ← hc1, hsh]
  · intro i hi
    rcases List.mem_append.mp hi with h | h
    · simp at h; subst h; rfl
    · exact q1 i h
  · intro i hi
    rcases List.mem_append.mp hi with h | h
    · exact q2 i h
    · simp at h; subst h; rfl
  · simp only [toggle, seq, ← hc1, hsh]
    rw [s2]

theorem toggle_exec (cfg : Cfg) (on : Bool) (cs : CS) (h : cs.shutterOn = !on) (σ : St) :
    (execFlat (flattenStmts (toggle cfg on cs).1) σ).1.pos = σ.pos ∧
    (execFlat (flattenStmts (toggle cfg on cs).1) σ).1.absMode = σ.absMode ∧
    (execFlat (flattenStmts (toggle cfg on cs).1) σ).1.shutter = on ∧
    movesOf (execFlat (flattenStmts (toggle cfg on cs).1) σ).2 = [] ∧
    (toggle cfg on cs).2.shutterOn = on := by
  obtain ⟨A, B, hs, hA, hB, hon⟩ := toggle_shape cfg on cs h
  rw [hs, execFlat_append, execFlat_append]
  obtain ⟨a1, a2, a3, a4⟩ := execFlat_quiet A hA σ
  set σ1 := (execFlat A σ).1
  have hp : execFlat [Instr.pso cfg.psoAxis on] σ1 = ({ σ1 with shutter := on }, [.pso on]) := by
    simp [execFlat, step]
  obtain ⟨b1, b2, b3, b4⟩ := execFlat_quiet B hB { σ1 with shutter := on }
  simp only [hp]
  refine ⟨by rw [b1]; exact a1, by rw [b2]; exact a2, by rw [b3], ?_, hon⟩
  rw [movesOf_append, movesOf_append, a4, b4]; simp [movesOf]

/-- a `G1` word list as `_format_args` prints it for a path point: three coordinates and a feed, nothing else -/
def fullW (w : G1W) : Bool :=
  w.x.isSome && w.y.isSome && w.z.isSome && w.f.isSome && w.zvar.isNone && w.u.isNone && !w.g9

theorem step_g1_full (σ : St) (w : G1W) (hw : fullW w = true) (habs : σ.absMode = true) :
    (step σ (.g1 w)).1.pos = posOf w ∧ (step σ (.g1 w)).1.absMode = true ∧ (step σ (.g1 w)).1.shutter = σ.shutter ∧
    movesOf (step σ (.g1 w)).2 =
      (if posOf w = σ.pos then [] else [{ src := σ.pos, dst := posOf w, feed := w.f, shutter := σ.shutter, g9 := false }]) := by
  simp only [fullW, Bool.and_eq_true, Bool.not_eq_true', Option.isSome_iff_exists, Option.isNone_iff_eq_none] at hw
  obtain ⟨⟨⟨⟨⟨⟨⟨x, hx⟩, ⟨y, hy⟩⟩, ⟨z, hz⟩⟩, ⟨f, hf⟩⟩, hzv⟩, hu⟩, hg⟩ := hw
  simp only [step, zTarget, uEvents, moveEvents, hzv, hu, hx, hy, hz, hf, hg, axisTarget, habs, if_true, posOf]
  refine ⟨by trivial, by trivial, by trivial, ?_⟩
  split <;> simp_all [movesOf]

end Femto.Gc

/-
Helper lemmas about the path primitives: what `linear` / `finish` append, and how strokes decompose.
-/
import FemtoVerif.Model.Marker
import FemtoVerif.Props.C15

set_option linter.unusedSimpArgs false
set_option linter.unusedVariables false

namespace Femto.Pth
open Femto Femto.Ras

/-- the row `linear` appends after a last row `l` -/
def nextRow (a : Attrs) (l : Row Rat) (dx dy dz : Option Rat) (abs : Bool) (shutter : Rat) (speed : Option Rat) : Row Rat :=
  if abs then ⟨dx.getD l.x, dy.getD l.y, dz.getD l.z, speed.getD a.speed, shutter⟩
  else ⟨l.x + dx.getD 0, l.y + dy.getD 0, l.z + dz.getD 0, speed.getD a.speed, shutter⟩

theorem linear_snoc (a : Attrs) (t : Traj) (l : Row Rat) (dx dy dz : Option Rat) (abs : Bool) (s : Rat) (sp : Option Rat) :
    linear a dx dy dz abs s sp (t ++ [l]) = .ok (t ++ [l] ++ [nextRow a l dx dy dz abs s sp]) := by
  unfold linear nextRow
  simp only [List.getLast?_append, List.getLast?_singleton, Option.some_or]
  cases abs <;> simp

theorem linear_two (a : Attrs) (r l : Row Rat) (dx dy dz : Option Rat) (abs : Bool) (s : Rat) (sp : Option Rat) :
    linear a dx dy dz abs s sp [r, l] = .ok [r, l, nextRow a l dx dy dz abs s sp] := by
  have := linear_snoc a [r] l dx dy dz abs s sp
  simpa using this

theorem finish_snoc (a : Attrs) (h : Row Rat) (t : Traj) (l : Row Rat) :
    finish a (h :: (t ++ [l])) = .ok (h :: (t ++ [l]) ++ [⟨l.x, l.y, l.z, l.f, 0⟩, ⟨h.x, h.y, h.z, a.speedClosed, 0⟩]) := by
  unfold finish
  have : (h :: (t ++ [l])).getLast? = some l := by
    have e : h :: (t ++ [l]) = (h :: t) ++ [l] := by simp
    rw [e, List.getLast?_append]; simp
  simp [this]

/-! strokes: the flags of a trajectory -/

def flagged (t : Traj) : List (P3 × Bool) := t.map fun r => (p3 r, decide (r.s ≠ 0))

theorem strokes_def (t : Traj) : strokes t = (trueRuns (flagged t)).map dedup := rfl

theorem flagged_append (a b : Traj) : flagged (a ++ b) = flagged a ++ flagged b := by simp [flagged]

/-- a closed row separates strokes -/
theorem strokes_append_closed (t₁ t₂ : Traj) (r : Row Rat) (hr : r.s = 0) :
    strokes (t₁ ++ r :: t₂) = strokes t₁ ++ strokes t₂ := by
  simp only [strokes_def, flagged_append]
  have : flagged (r :: t₂) = (p3 r, false) :: flagged t₂ := by simp [flagged, hr]
  rw [this, C15.trueRuns_append_false, List.map_append]

theorem strokes_cons_closed (r : Row Rat) (t : Traj) (hr : r.s = 0) : strokes (r :: t) = strokes t := by
  have := strokes_append_closed [] t r hr
  simpa [strokes_def, flagged, trueRuns] using this

theorem strokes_nil : strokes ([] : Traj) = [] := by simp [strokes_def, flagged, trueRuns]

/-- a trajectory all of whose rows are open is one stroke -/
theorem trueRuns_all_true {α : Type} (l : List α) (h : l ≠ []) : trueRuns (l.map fun a => (a, true)) = [l] := by
  induction l with
  | nil => exact absurd rfl h
  | cons a t ih =>
    cases t with
    | nil => simp [trueRuns]
    | cons b t' =>
      have := ih (by simp)
      simp only [List.map_cons] at this ⊢
      rw [C15.tr_tt, this]; rfl

theorem strokes_all_open (t : Traj) (h : t ≠ []) (ho : ∀ r ∈ t, r.s ≠ 0) : strokes t = [dedup (t.map p3)] := by
  have : flagged t = (t.map p3).map fun p => (p, true) := by
    simp only [flagged, List.map_map]
    apply List.map_congr_left
    intro r hr
    simp [ho r hr]
  rw [strokes_def, this, trueRuns_all_true _ (by simpa using h)]
  rfl

end Femto.Pth

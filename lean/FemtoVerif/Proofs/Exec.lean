/-
Helper lemmas about the interpreter of the reference controller.
-/
import FemtoVerif.Proofs.GcLemmas

namespace Femto.Ctl
open Femto.Gc

theorem execFlat_append (a b : List Instr) (σ : St) :
    execFlat (a ++ b) σ = ((execFlat b (execFlat a σ).1).1, (execFlat a σ).2 ++ (execFlat b (execFlat a σ).1).2) := by
  induction a generalizing σ with
  | nil => simp [execFlat]
  | cons i is ih => simp [execFlat, ih, List.append_assoc]

theorem flattenStmts_append (a b : List Stmt) : flattenStmts (a ++ b) = flattenStmts a ++ flattenStmts b := by
  induction a with
  | nil => simp [flattenStmts]
  | cons s ss ih => simp [flattenStmts, ih, List.append_assoc]

theorem flattenStmts_emit (is : List Instr) : flattenStmts (emit is) = is := by
  induction is with
  | nil => simp [emit, flattenStmts]
  | cons i is ih => simp only [emit, List.map_cons, flattenStmts, flattenStmt] at ih ⊢; simp [ih]

theorem movesOf_append (a b : List Ev) : movesOf (a ++ b) = movesOf a ++ movesOf b := by
  simp [movesOf, List.filterMap_append]

theorem step_dwell (σ : St) (i : Instr) : (step σ i).1.dwell = σ.dwell + instrDwell i := by
  cases i <;> simp [step, instrDwell]
  all_goals (try split) <;> simp_all

/-- executing a structured program accumulates exactly `dwellOfList` — loop bodies once per iteration -/
theorem execRep_dwell_aux (body : List Stmt)
    (hb : ∀ σ, (execStmts body σ).1.dwell = σ.dwell + dwellOfList body) (k : Nat) (σ : St) :
    (execRep k body σ).1.dwell = σ.dwell + k * dwellOfList body := by
  induction k generalizing σ with
  | zero => simp [execRep]
  | succ k ih =>
    rw [execRep]
    simp only [ih, hb]
    push_cast; ring

mutual
  theorem execStmt_dwell (s : Stmt) (σ : St) : (execStmt s σ).1.dwell = σ.dwell + dwellOf s := by
    match s with
    | .atom i => rw [execStmt, step_dwell, dwellOf_atom]
    | .rep n body =>
      rw [execStmt, execRep_dwell_aux body (fun σ => execStmts_dwell body σ), dwellOf]
    | .forr v lo hi body =>
      rw [execStmt, dwellOf]
      have := execRep_dwell_aux body (fun σ => execStmts_dwell body σ) (hi - lo + 1).toNat σ
      split <;> simpa using this
  theorem execStmts_dwell (ss : List Stmt) (σ : St) : (execStmts ss σ).1.dwell = σ.dwell + dwellOfList ss := by
    match ss with
    | [] => simp [execStmts, dwellOfList]
    | s :: ss =>
      rw [execStmts]
      simp only [execStmts_dwell ss, execStmt_dwell s, dwellOfList]
      ring
end

end Femto.Ctl

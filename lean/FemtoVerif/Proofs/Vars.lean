/-
"Loop variables are declared": in program order every FOR variable of a compiled session has been declared by a DVAR line
earlier in the text.  `for_loop` refuses an undeclared variable, `dvar` hoists its line to the top of the file, nothing else
declares, assigns or loops over a variable.
-/
import FemtoVerif.Proofs.GcLemmas
import FemtoVerif.Proofs.Exec
import FemtoVerif.Spec.WF
import Batteries.Data.Char.AsciiCasing

set_option linter.unusedSimpArgs false
set_option linter.unusedVariables false

namespace Femto.Gc
open Femto.Ctl

theorem lower_idem (s : String) : lower (lower s) = lower s := by
  simp [lower, List.map_map, Function.comp_def]

/-- an instruction that neither declares nor uses a variable -/
def vfInstr : Instr → Bool
  | .dvar _ | .setVar .. | .incVar .. | .forr .. | .next _ => false
  | _ => true

/- every FOR variable (at any depth) is in `D`; no atom declares or assigns a variable -/
mutual
  def vfStmt (D : List String) : Stmt → Bool
    | .atom i => vfInstr i
    | .rep _ body => vfList D body
    | .forr v _ _ body => D.contains v && vfList D body
  def vfList (D : List String) : List Stmt → Bool
    | [] => true
    | s :: ss => vfStmt D s && vfList D ss
end

variable {D : List String}

theorem vf_append (a b : List Stmt) : vfList D (a ++ b) = (vfList D a && vfList D b) := by
  induction a with
  | nil => simp [vfList]
  | cons s ss ih => simp [vfList, ih, Bool.and_assoc]

theorem vf_emit (is : List Instr) (h : ∀ i ∈ is, vfInstr i = true) : vfList D (emit is) = true := by
  induction is with
  | nil => simp [emit, vfList]
  | cons i is ih =>
    simp only [emit, List.map_cons, vfList, vfStmt, Bool.and_eq_true]
    exact ⟨h i (by simp), by simpa [emit] using ih (fun j hj => h j (by simp [hj]))⟩

mutual
  theorem vfStmt_mono {D D' : List String} (hsub : ∀ v, D.contains v = true → D'.contains v = true) (s : Stmt)
      (h : vfStmt D s = true) : vfStmt D' s = true := by
    match s with
    | .atom i => simpa [vfStmt] using h
    | .rep n body =>
      rw [vfStmt] at h ⊢
      exact vfList_mono hsub body h
    | .forr v lo hi body =>
      rw [vfStmt, Bool.and_eq_true] at h ⊢
      exact ⟨hsub v h.1, vfList_mono hsub body h.2⟩
  theorem vfList_mono {D D' : List String} (hsub : ∀ v, D.contains v = true → D'.contains v = true) (ss : List Stmt)
      (h : vfList D ss = true) : vfList D' ss = true := by
    match ss with
    | [] => simp [vfList]
    | s :: rest =>
      rw [vfList, Bool.and_eq_true] at h ⊢
      exact ⟨vfStmt_mono hsub s h.1, vfList_mono hsub rest h.2⟩
end

/-- an emitting helper: does not touch the declared set, emits nothing about variables -/
def OutV (cs : CS) (o : Out) : Prop := o.2.dvars = cs.dvars ∧ ∀ D, vfList D o.1 = true

theorem OutV.nil (cs : CS) : OutV cs ([], cs) := ⟨rfl, fun _ => by simp [vfList]⟩

theorem OutV.pure (cs : CS) (is : List Instr) (h : ∀ i ∈ is, vfInstr i = true) : OutV cs (emit is, cs) :=
  ⟨rfl, fun _ => vf_emit is h⟩

theorem seq_v {cs : CS} {a : Out} {f : CS → Out} (ha : OutV cs a) (hf : ∀ c, OutV c (f c)) : OutV cs (seq a f) := by
  obtain ⟨h1, h2⟩ := ha
  obtain ⟨h3, h4⟩ := hf a.2
  exact ⟨by simp only [seq]; rw [h3, h1], fun D => by simp [seq, vf_append, h2 D, h4 D]⟩

theorem dwell_v (p : Option Rat) (cs : CS) : OutV cs (dwell p cs) := by
  unfold dwell
  cases p with
  | none => exact OutV.nil cs
  | some t =>
    by_cases h : t = 0
    · simp only [h, if_true]; exact OutV.nil cs
    · simp only [h, if_false]
      exact ⟨rfl, fun _ => vf_emit _ (by simp [vfInstr])⟩

theorem shutter_v (cfg : Cfg) (on : Bool) (cs : CS) : OutV cs (shutter cfg on cs) := by
  unfold shutter
  split
  · exact ⟨rfl, fun _ => vf_emit _ (by simp [vfInstr])⟩
  · split
    · exact ⟨rfl, fun _ => vf_emit _ (by simp [vfInstr])⟩
    · exact OutV.nil cs

theorem toggle_v (cfg : Cfg) (on : Bool) (cs : CS) : OutV cs (toggle cfg on cs) := by
  unfold toggle
  refine seq_v (seq_v (seq_v (OutV.pure cs _ (by simp [vfInstr])) (dwell_v _)) (shutter_v cfg on)) ?_
  intro c
  exact seq_v (dwell_v _ c) (fun c' => OutV.pure c' _ (by simp [vfInstr]))

theorem toggleStep_v (cfg : Cfg) (s : Rat) (cs : CS) : OutV cs (toggleStep cfg s cs).1 := by
  unfold toggleStep
  split
  · exact toggle_v cfg false cs
  · split
    · exact toggle_v cfg true cs
    · exact OutV.nil cs

theorem maybeG1_v (b : Bool) (prev : Option G1W) (w : G1W) (D : List String) : vfList D (maybeG1 b prev w) = true := by
  unfold maybeG1
  split
  · exact vf_emit _ (by simp [vfInstr])
  · simp [vfList]

theorem writeLoop_v (cfg : Cfg) (prev : Option G1W) (ws : List (G1W × Rat)) (cs : CS) : OutV cs (writeLoop cfg prev ws cs) := by
  induction ws generalizing prev cs with
  | nil => exact OutV.nil cs
  | cons hd rest ih =>
    obtain ⟨w, s⟩ := hd
    simp only [writeLoop]
    obtain ⟨c1, d1⟩ := toggleStep_v cfg s cs
    obtain ⟨c2, d2⟩ := ih (some w) (toggleStep cfg s cs).1.2
    exact ⟨by rw [c2, c1], fun D => by simp [vf_append, d1 D, d2 D, maybeG1_v]⟩

theorem write_v (cfg : Cfg) (m : List Pt) (cs : CS) (o : Out) (h : write cfg m cs = .ok o) : OutV cs o := by
  unfold write at h
  cases hm : m.mapM (formatPt cfg) with
  | error e => rw [hm] at h; simp [Except.map] at h
  | ok ws =>
    rw [hm] at h
    simp only [Except.map] at h
    injection h with h
    subst h
    exact seq_v (seq_v (writeLoop_v cfg none ws cs) (dwell_v _)) (fun c => OutV.pure c _ (by simp [vfInstr]))

theorem closeIfOpen_v (cfg : Cfg) (cs : CS) : OutV cs (closeIfOpen cfg cs) := by
  unfold closeIfOpen
  split
  · exact shutter_v cfg false cs
  · exact OutV.nil cs

theorem moveTo_v (cfg : Cfg) (x y z sp : Option Rat) (cs : CS) : OutV cs (moveTo cfg x y z sp cs).1 := by
  unfold moveTo
  cases formatArgs cfg.digits x y z (some (sp.getD cfg.speedPos)) with
  | error e => exact closeIfOpen_v cfg cs
  | ok w =>
    refine seq_v (seq_v (closeIfOpen_v cfg cs) (fun c => OutV.pure c [.g1 w] (by simp [vfInstr]))) ?_
    intro c
    exact seq_v (dwell_v _ c) (fun c' => OutV.pure c' _ (by simp [vfInstr]))

theorem comment_v (b : Bool) (cs : CS) : OutV cs (comment b cs) := by
  unfold comment
  split
  · exact OutV.pure cs _ (by simp [vfInstr])
  · exact OutV.pure cs _ (by simp [vfInstr])

theorem exitRot_v (cfg : Cfg) (cs : CS) : OutV cs (exitRot cfg cs) := by
  unfold exitRot
  exact seq_v (seq_v (comment_v true cs) (fun c => OutV.pure c _ (by simp [vfInstr]))) (dwell_v _)

theorem enterRot_v (cfg : Cfg) (a : Option Rat) (cs : CS) : OutV cs (enterRot cfg a cs) := by
  unfold enterRot
  simp only
  split
  · exact seq_v (seq_v (comment_v true cs) (fun c => OutV.pure c _ (by simp [vfInstr]))) (dwell_v _)
  · exact seq_v (seq_v (seq_v (seq_v (comment_v true cs) (fun c => OutV.pure c _ (by simp [vfInstr]))) (dwell_v _))
      (fun c => OutV.pure c _ (by simp [vfInstr]))) (dwell_v _)

/-! ### results of operations -/

/-- names declared by hoisted lines -/
def declared : List Stmt → List String
  | [] => []
  | .atom (.dvar vs) :: r => vs ++ declared r
  | _ :: r => declared r

/-- hoisted lines are DVAR lines and blanks only -/
def preOK : List Stmt → Bool
  | [] => true
  | .atom (.dvar _) :: r => preOK r
  | .atom .blank :: r => preOK r
  | _ => false

theorem declared_append (a b : List Stmt) : declared (a ++ b) = declared a ++ declared b := by
  induction a with
  | nil => rfl
  | cons s r ih =>
    cases s with
    | atom i => cases i <;> simp [declared, ih]
    | rep _ _ => simp [declared, ih]
    | forr _ _ _ _ => simp [declared, ih]

theorem preOK_append (a b : List Stmt) : preOK (a ++ b) = (preOK a && preOK b) := by
  induction a with
  | nil => simp [preOK]
  | cons s r ih =>
    cases s with
    | atom i => cases i <;> simp [preOK, ih]
    | rep _ _ => simp [preOK]
    | forr _ _ _ _ => simp [preOK]

/-- hoisted names are stored lower-cased (that is how `dvar` writes them) -/
def preLower : List Stmt → Prop
  | [] => True
  | .atom (.dvar vs) :: r => (∀ v ∈ vs, lower v = v) ∧ preLower r
  | _ :: r => preLower r

theorem preLower_append (a b : List Stmt) (ha : preLower a) (hb : preLower b) : preLower (a ++ b) := by
  induction a with
  | nil => simpa using hb
  | cons s r ih =>
    cases s with
    | atom i =>
      cases i <;> simp only [List.cons_append, preLower] at ha ⊢ <;> first | exact ih ha | exact ⟨ha.1, ih ha.2⟩
    | rep _ _ => simp only [List.cons_append, preLower] at ha ⊢; exact ih ha
    | forr _ _ _ _ => simp only [List.cons_append, preLower] at ha ⊢; exact ih ha

/-- what an operation guarantees about variables, from compiler state `cs`:
the declared set only grows, every new name is declared by a hoisted line, every FOR variable of the output is in the
declared set the compiler had reached, and the output itself contains no variable instruction -/
structure ResV (cs : CS) (r : Res) : Prop where
  grows : ∀ v, cs.dvars.contains v = true → r.cs.dvars.contains v = true
  hoisted : ∀ v, r.cs.dvars.contains v = true → cs.dvars.contains v = true ∨ (declared r.pre).contains v = true
  out : vfList r.cs.dvars r.out = true
  pre : preOK r.pre = true
  lowerPre : preLower r.pre

theorem ResV.ofOut {cs : CS} {o : Out} (h : OutV cs o) : ResV cs (Res.ofOut o) where
  grows v hv := by simp only [Res.ofOut]; rw [h.1]; exact hv
  hoisted v hv := by simp only [Res.ofOut] at hv; rw [h.1] at hv; exact Or.inl hv
  out := h.2 _
  pre := by simp [Res.ofOut, preOK]
  lowerPre := by simp [Res.ofOut, preLower]

theorem ResV.stop (cs : CS) (e : Option Err) : ResV cs { cs := cs, err := e } where
  grows v hv := hv
  hoisted v hv := Or.inl hv
  out := by simp [vfList]
  pre := by simp [preOK]
  lowerPre := by simp [preLower]

theorem ResV.same {cs : CS} {r : Res} (hcs : r.cs.dvars = cs.dvars) (hout : ∀ D, vfList D r.out = true) (hpre : r.pre = []) :
    ResV cs r where
  grows v hv := by rw [hcs]; exact hv
  hoisted v hv := by rw [hcs] at hv; exact Or.inl hv
  out := hout _
  pre := by simp [hpre, preOK]
  lowerPre := by simp [hpre, preLower]

theorem andThen_v {cs : CS} {a : Res} {f : CS → Res} (ha : ResV cs a) (hf : ∀ c, ResV c (f c)) : ResV cs (a.andThen f) := by
  unfold Res.andThen
  split
  · exact ha
  · have hb := hf a.cs
    exact {
      grows := fun v hv => hb.grows v (ha.grows v hv)
      hoisted := fun v hv => by
        rcases hb.hoisted v hv with h | h
        · rcases ha.hoisted v h with h' | h'
          · exact Or.inl h'
          · exact Or.inr (by simp only [declared_append, List.contains_eq_mem, List.mem_append, decide_eq_true_eq]; exact Or.inr (by simpa using h'))
        · exact Or.inr (by simp only [declared_append, List.contains_eq_mem, List.mem_append, decide_eq_true_eq]; exact Or.inl (by simpa using h))
      out := by
        simp only [vf_append, Bool.and_eq_true]
        exact ⟨vfList_mono hb.grows _ ha.out, hb.out⟩
      pre := by simp [preOK_append, ha.pre, hb.pre]
      lowerPre := preLower_append _ _ hb.lowerPre ha.lowerPre }

theorem moveRes_v (cfg : Cfg) (x y z sp : Option Rat) (cs : CS) :
    ResV cs (let r := moveTo cfg x y z sp cs; ({ out := r.1.1, cs := r.1.2, err := r.2 } : Res)) :=
  ResV.same (moveTo_v cfg x y z sp cs).1 (moveTo_v cfg x y z sp cs).2 rfl

theorem loadOp_v (p : String) (t : Nat) (cs : CS) : ResV cs (loadOp p t cs) := by
  unfold loadOp
  split
  · exact ResV.stop cs _
  · exact ResV.same rfl (fun _ => vf_emit _ (by simp [vfInstr])) rfl

theorem removeOp_v (p : String) (t : Nat) (cs : CS) : ResV cs (removeOp p t cs) := by
  unfold removeOp
  split
  · exact ResV.stop cs _
  · split
    · exact ResV.stop cs _
    · exact ResV.same rfl (fun _ => vf_emit _ (by simp [vfInstr])) rfl

theorem farcallOp_v (cfg : Cfg) (p : String) (cs : CS) : ResV cs (farcallOp cfg p cs) := by
  unfold farcallOp
  split
  · exact ResV.stop cs _
  · split
    · exact ResV.stop cs _
    · exact ResV.ofOut (seq_v (dwell_v _ cs) (fun c => OutV.pure c _ (by simp [vfInstr])))

theorem bufferedOp_v (cfg : Cfg) (p : String) (t : Nat) (cs : CS) : ResV cs (bufferedOp cfg p t cs) := by
  unfold bufferedOp
  split
  · exact ResV.stop cs _
  · split
    · exact ResV.stop cs _
    · exact ResV.ofOut (seq_v (dwell_v _ cs) (fun c => OutV.pure c _ (by simp [vfInstr])))

theorem farcallListOp_v (cfg : Cfg) (items : List (String × Nat)) (cs : CS) : ResV cs (farcallListOp cfg items cs) := by
  induction items generalizing cs with
  | nil => simp only [farcallListOp]; exact ResV.stop cs none
  | cons it rest ih =>
    obtain ⟨p, t⟩ := it
    simp only [farcallListOp]
    refine andThen_v (andThen_v (andThen_v (andThen_v (loadOp_v p t cs) (fun c => farcallOp_v cfg _ c))
      (fun c => ResV.ofOut (dwell_v _ c))) (fun c => removeOp_v _ t c)) ?_
    intro c
    exact andThen_v (ResV.ofOut (seq_v (dwell_v _ c) (fun c' => OutV.pure c' _ (by simp [vfInstr])))) (fun c' => ih c')

mutual
  theorem execOp_v (cfg : Cfg) (op : Op) (cs : CS) : ResV cs (execOp cfg op cs) := by
    match op with
    | .write m =>
      simp only [execOp]
      cases h : write cfg m cs with
      | ok o => exact ResV.ofOut (write_v cfg m cs o h)
      | error e => exact ResV.stop cs _
    | .moveTo x y z sp => simp only [execOp]; exact moveRes_v cfg x y z sp cs
    | .goOrigin =>
      simp only [execOp]
      exact andThen_v (ResV.ofOut (comment_v true cs)) (fun c => moveRes_v cfg _ _ _ _ c)
    | .goInit => simp only [execOp]; exact moveRes_v cfg _ _ _ _ cs
    | .dwell p => simp only [execOp]; exact ResV.ofOut (dwell_v p cs)
    | .comment b => simp only [execOp]; exact ResV.ofOut (comment_v b cs)
    | .setHome x y z =>
      simp only [execOp]
      split
      · exact ResV.stop cs _
      · exact ResV.same rfl (fun _ => vf_emit _ (by simp [vfInstr])) rfl
    | .rep n body =>
      simp only [execOp]
      split
      · exact ResV.stop cs _
      · have hb := execOps_v cfg body cs
        exact { grows := hb.grows, hoisted := hb.hoisted, pre := hb.pre, lowerPre := hb.lowerPre,
                out := by simp [vfList, vfStmt, vfInstr, hb.out] }
    | .forr v n body =>
      simp only [execOp]
      split
      · exact ResV.stop cs _
      · split
        · exact ResV.stop cs _
        · rename_i _ hdecl
          have hb := execOps_v cfg body cs
          have hv : cs.dvars.contains (lower v) = true := by simpa using hdecl
          exact { grows := hb.grows, hoisted := hb.hoisted, pre := hb.pre, lowerPre := hb.lowerPre,
                  out := by
                    have hg := hb.grows _ hv
                    simp only [vfList, vfStmt, hb.out, hg, Bool.and_self, vfInstr] }
    | .axisRot a body =>
      simp only [execOp]
      have he := enterRot_v cfg a cs
      have hb := execOps_v cfg body (enterRot cfg a cs).2
      have hx := exitRot_v cfg (execOps cfg body (enterRot cfg a cs).2).cs
      exact {
        grows := fun v hv => by rw [hx.1]; exact hb.grows v (by rw [he.1]; exact hv)
        hoisted := fun v hv => by
          rw [hx.1] at hv
          rcases hb.hoisted v hv with h | h
          · exact Or.inl (by rw [he.1] at h; exact h)
          · exact Or.inr h
        out := by
          simp only [vf_append, Bool.and_eq_true]
          rw [hx.1]
          exact ⟨⟨he.2 _, hb.out⟩, hx.2 _⟩
        pre := hb.pre
        lowerPre := hb.lowerPre }
    | .dvar vs =>
      simp only [execOp]
      exact {
        grows := fun v hv => by
          simp only [List.contains_eq_mem, List.mem_append, decide_eq_true_eq] at hv ⊢
          exact Or.inl hv
        hoisted := fun v hv => by
          simp only [List.contains_eq_mem, List.mem_append, decide_eq_true_eq] at hv ⊢
          rcases hv with h | h
          · exact Or.inl h
          · exact Or.inr (by simp [declared, emit, h])
        out := by simp [vfList]
        pre := by simp [preOK, emit]
        lowerPre := by
          simp only [emit, List.map_cons, List.map_nil, preLower, and_true]
          intro v hv
          obtain ⟨u, _, rfl⟩ := List.mem_map.mp hv
          exact lower_idem u }
    | .load p t => simp only [execOp]; exact loadOp_v p t cs
    | .farcall p => simp only [execOp]; exact farcallOp_v cfg p cs
    | .buffered p t => simp only [execOp]; exact bufferedOp_v cfg p t cs
    | .remove p t => simp only [execOp]; exact removeOp_v p t cs
    | .farcallList items => simp only [execOp]; exact farcallListOp_v cfg items cs
    | .raise => simp only [execOp]; exact ResV.stop cs _
    | .attempt body =>
      simp only [execOp]
      have hb := execOps_v cfg body cs
      exact ⟨hb.grows, hb.hoisted, hb.out, hb.pre, hb.lowerPre⟩
    | .loadBad p => simp only [execOp]; exact ResV.stop cs _
  theorem execOps_v (cfg : Cfg) (ops : List Op) (cs : CS) : ResV cs (execOps cfg ops cs) := by
    match ops with
    | [] => simp only [execOps]; exact ResV.stop cs none
    | op :: ops =>
      simp only [execOps]
      have ha := execOp_v cfg op cs
      cases he : (execOp cfg op cs).err with
      | some e => simpa [he] using ha
      | none =>
        simp only [he]
        have hb := execOps_v cfg ops (execOp cfg op cs).cs
        exact {
          grows := fun v hv => hb.grows v (ha.grows v hv)
          hoisted := fun v hv => by
            rcases hb.hoisted v hv with h | h
            · rcases ha.hoisted v h with h' | h'
              · exact Or.inl h'
              · exact Or.inr (by simp only [declared_append, List.contains_eq_mem, List.mem_append, decide_eq_true_eq]; exact Or.inr (by simpa using h'))
            · exact Or.inr (by simp only [declared_append, List.contains_eq_mem, List.mem_append, decide_eq_true_eq]; exact Or.inl (by simpa using h))
          out := by
            simp only [vf_append, Bool.and_eq_true]
            exact ⟨vfList_mono hb.grows _ ha.out, hb.out⟩
          pre := by simp [preOK_append, ha.pre, hb.pre]
          lowerPre := preLower_append _ _ hb.lowerPre ha.lowerPre }
end

/-! ### from the syntactic invariant to the controller's program-order scan -/

theorem scanVars_skip (i : Instr) (h : vfInstr i = true) (is : List Instr) (D : List String) :
    scanVars (i :: is) D = scanVars is D := by
  cases i <;> simp_all [scanVars, vfInstr]

mutual
  theorem scanVars_vfStmt (D : List String) (s : Stmt) (h : vfStmt D s = true) (rest : List Instr) :
      scanVars (flattenStmt s ++ rest) D = scanVars rest D := by
    match s with
    | .atom i =>
      rw [vfStmt] at h
      simp only [flattenStmt, List.singleton_append]
      exact scanVars_skip i h rest D
    | .rep n body =>
      rw [vfStmt] at h
      simp only [flattenStmt, List.cons_append, List.append_assoc]
      rw [scanVars_skip _ (by rfl), scanVars_vfList D body h]
      exact scanVars_skip _ (by rfl) rest D
    | .forr v lo hi body =>
      rw [vfStmt, Bool.and_eq_true] at h
      simp only [flattenStmt, List.cons_append, List.append_assoc]
      simp only [scanVars, h.1, Bool.true_and]
      rw [scanVars_vfList D body h.2]
      simp [scanVars]
  theorem scanVars_vfList (D : List String) (ss : List Stmt) (h : vfList D ss = true) (rest : List Instr) :
      scanVars (flattenStmts ss ++ rest) D = scanVars rest D := by
    match ss with
    | [] => simp [flattenStmts]
    | s :: more =>
      rw [vfList, Bool.and_eq_true] at h
      simp only [flattenStmts, List.append_assoc]
      rw [scanVars_vfStmt D s h.1, scanVars_vfList D more h.2]
end

/-- scanning the hoisted lines declares exactly their names (on top of what was there) -/
theorem scanVars_pre (pre : List Stmt) (h : preOK pre = true) (hl : preLower pre) (rest : List Instr) (D : List String) :
    ∃ D', scanVars (flattenStmts pre ++ rest) D = scanVars rest D' ∧
      (∀ v, D.contains v = true → D'.contains v = true) ∧ (∀ v, (declared pre).contains v = true → D'.contains v = true) := by
  induction pre generalizing D with
  | nil => exact ⟨D, by simp [flattenStmts], fun v hv => hv, by simp [declared]⟩
  | cons s r ih =>
    cases s with
    | atom i =>
      cases i with
      | dvar vs =>
        simp only [preOK] at h
        simp only [preLower] at hl
        obtain ⟨D', h1, h2, h3⟩ := ih h hl.2 (vs.map lower ++ D)
        refine ⟨D', ?_, ?_, ?_⟩
        · simp only [flattenStmts, flattenStmt, List.singleton_append, List.cons_append, scanVars]
          simpa using h1
        · intro v hv
          exact h2 v (by simp only [List.contains_eq_mem, List.mem_append, decide_eq_true_eq] at hv ⊢; exact Or.inr hv)
        · intro v hv
          simp only [declared, List.contains_eq_mem, List.mem_append, decide_eq_true_eq] at hv
          rcases hv with hv | hv
          · exact h2 v (by
              simp only [List.contains_eq_mem, List.mem_append, List.mem_map, decide_eq_true_eq]
              exact Or.inl ⟨v, hv, hl.1 v hv⟩)
          · exact h3 v (by simpa using hv)
      | blank =>
        simp only [preOK] at h
        simp only [preLower] at hl
        obtain ⟨D', h1, h2, h3⟩ := ih h hl D
        exact ⟨D', by simpa [flattenStmts, flattenStmt, scanVars] using h1, h2, by simpa [declared] using h3⟩
      | _ => simp [preOK] at h
    | rep _ _ => simp [preOK] at h
    | forr _ _ _ _ => simp [preOK] at h

/-- a header that neither declares nor uses variables -/
def headerVarFree (h : List Instr) : Bool := h.all vfInstr

theorem scanVars_varFree (is : List Instr) (h : is.all vfInstr = true) (rest : List Instr) (D : List String) :
    scanVars (is ++ rest) D = scanVars rest D := by
  induction is with
  | nil => rfl
  | cons i r ih =>
    simp only [List.all_cons, Bool.and_eq_true] at h
    rw [List.cons_append, scanVars_skip i h.1, ih h.2]

/-- **loop variables are declared** (program order): the text of any session passes the controller's variable scan -/
theorem session_vars (cfg : Cfg) (ops : List Op) (hh : headerVarFree cfg.header = true) :
    scanVars (flattenStmts (session cfg ops).1) [] = true := by
  unfold session
  simp only
  generalize hh0 : seq (seq (emit (cfg.header ++ [Instr.blank]), ({} : CS)) (dwell (some 1))) (fun cs => (emit [Instr.blank], cs)) = h0
  have h0v : OutV {} h0 := by
    subst hh0
    refine seq_v (seq_v ⟨rfl, fun D => vf_emit _ ?_⟩ (dwell_v _)) (fun c => OutV.pure c _ (by simp [vfInstr]))
    intro i hi
    rcases List.mem_append.mp hi with hi | hi
    · exact (List.all_eq_true.mp hh) i hi
    · simp at hi; subst hi; rfl
  -- everything after the hoisted lines is variable-free up to FORs over declared names
  have key : ∀ (h1 : Out) (x g : List Stmt), OutV {} h1 → (∀ D, vfList D x = true) → (∀ D, vfList D g = true) →
      scanVars (flattenStmts ((execOps cfg ops h1.2).pre ++ h1.1 ++ (execOps cfg ops h1.2).out ++ x ++ g)) [] = true := by
    intro h1 x g hv1 hx hg
    have hr := execOps_v cfg ops h1.2
    obtain ⟨D', e1, _, e3⟩ := scanVars_pre _ hr.pre hr.lowerPre
      (flattenStmts (h1.1 ++ (execOps cfg ops h1.2).out ++ x ++ g)) []
    have hD : ∀ v, (execOps cfg ops h1.2).cs.dvars.contains v = true → D'.contains v = true := by
      intro v hv
      rcases hr.hoisted v hv with h | h
      · rw [hv1.1] at h; simp at h
      · exact e3 v h
    have hall : vfList D' (h1.1 ++ (execOps cfg ops h1.2).out ++ x ++ g) = true := by
      simp only [vf_append, Bool.and_eq_true]
      exact ⟨⟨⟨hv1.2 _, vfList_mono hD _ hr.out⟩, hx _⟩, hg _⟩
    have := scanVars_vfList D' _ hall []
    simp only [List.append_nil] at this
    rw [show (execOps cfg ops h1.2).pre ++ h1.1 ++ (execOps cfg ops h1.2).out ++ x ++ g =
        (execOps cfg ops h1.2).pre ++ (h1.1 ++ (execOps cfg ops h1.2).out ++ x ++ g) by simp [List.append_assoc]]
    rw [flattenStmts_append, e1, this]
    rfl
  by_cases ha : cfg.aeroAngle = 0
  · simp only [ha, if_true]
    split
    · exact key h0 [] _ h0v (fun _ => by simp [vfList]) (moveTo_v cfg _ _ _ _ _).2
    · exact key h0 [] [] h0v (fun _ => by simp [vfList]) (fun _ => by simp [vfList])
  · simp only [ha, if_false]
    have h1v : OutV {} (seq h0 (enterRot cfg (some cfg.aeroAngle))) := seq_v h0v (fun c => enterRot_v cfg _ c)
    have hx : ∀ cs, ∀ D, vfList D (seq (exitRot cfg cs) fun cs => (emit [Instr.blank], cs)).1 = true :=
      fun cs => (seq_v (exitRot_v cfg cs) (fun c => OutV.pure c _ (by simp [vfInstr]))).2
    split
    · exact key _ _ _ h1v (hx _) (moveTo_v cfg _ _ _ _ _).2
    · exact key _ _ [] h1v (hx _) (fun _ => by simp [vfList])

end Femto.Gc

/-
Helper lemmas about the compiler model (`Model/Gcode.lean`): everything it emits is a clean structured program
(atoms are never loop delimiters) and the dwell it emits equals the increase of the reported total.
-/
import FemtoVerif.Model.Gcode
import FemtoVerif.Proofs.Structure

namespace Femto.Gc
open Femto.Ctl

theorem dwellOf_atom (i : Instr) : dwellOf (.atom i) = instrDwell i := by
  cases i <;> simp [dwellOf, instrDwell]

theorem dwellOfList_emit (is : List Instr) : dwellOfList (emit is) = (is.map instrDwell).sum := by
  induction is with
  | nil => simp [emit, dwellOfList]
  | cons i is ih =>
    simp only [emit, List.map_cons, dwellOfList, List.sum_cons] at ih ⊢
    rw [dwellOf_atom, ih]

theorem cleanList_emit (is : List Instr) (h : ∀ i ∈ is, i.isDelim = false) : cleanList (emit is) = true := by
  induction is with
  | nil => simp [emit, cleanList]
  | cons i is ih =>
    simp only [emit, List.map_cons, cleanList, Stmt.clean, Bool.and_eq_true, Bool.not_eq_true']
    exact ⟨h i (by simp), by simpa [emit] using ih (fun j hj => h j (by simp [hj]))⟩

/-- an emitting step is fine: clean, and the dwell it emits is the increase of the reported total -/
def OutOK (cs : CS) (o : Out) : Prop :=
  cleanList o.1 = true ∧ dwellOfList o.1 = o.2.dwellTotal - cs.dwellTotal

theorem OutOK.nil (cs : CS) : OutOK cs ([], cs) := by simp [OutOK, cleanList, dwellOfList]

theorem seq_ok {cs : CS} {a : Out} {f : CS → Out} (ha : OutOK cs a) (hf : ∀ c, OutOK c (f c)) :
    OutOK cs (seq a f) := by
  obtain ⟨h1, h2⟩ := ha
  obtain ⟨h3, h4⟩ := hf a.2
  refine ⟨?_, ?_⟩
  · simp [seq, cleanList_append, h1, h3]
  · simp only [seq, dwellOfList_append, h2, h4]; ring

theorem rabs_nonneg (q : Rat) : 0 ≤ rabs q := by
  unfold rabs; split <;> linarith

theorem dwell_ok (p : Option Rat) (cs : CS) : OutOK cs (dwell p cs) := by
  unfold dwell
  cases p with
  | none => exact OutOK.nil cs
  | some t =>
    by_cases h : t = 0
    · simp only [h, if_true]; exact OutOK.nil cs
    · simp only [h, if_false]
      refine ⟨cleanList_emit _ (by simp [Instr.isDelim]), ?_⟩
      simp [dwellOfList_emit, instrDwell]

/-- emitting instructions that are neither delimiters nor dwells, state untouched -/
theorem pure_ok (cs : CS) (is : List Instr) (h1 : ∀ i ∈ is, i.isDelim = false) (h2 : ∀ i ∈ is, instrDwell i = 0) :
    OutOK cs (emit is, cs) := by
  refine ⟨cleanList_emit _ h1, ?_⟩
  rw [dwellOfList_emit]
  have : (is.map instrDwell).sum = 0 := by
    apply List.sum_eq_zero
    intro x hx
    obtain ⟨i, hi, rfl⟩ := List.mem_map.mp hx
    exact h2 i hi
  simp [this]

theorem shutter_ok (cfg : Cfg) (on : Bool) (cs : CS) : OutOK cs (shutter cfg on cs) := by
  unfold shutter
  split
  · exact ⟨cleanList_emit _ (by simp [Instr.isDelim]), by simp [dwellOfList_emit, instrDwell]⟩
  · split
    · exact ⟨cleanList_emit _ (by simp [Instr.isDelim]), by simp [dwellOfList_emit, instrDwell]⟩
    · exact OutOK.nil cs

theorem toggle_ok (cfg : Cfg) (on : Bool) (cs : CS) : OutOK cs (toggle cfg on cs) := by
  unfold toggle
  refine seq_ok (seq_ok (seq_ok (pure_ok cs _ (by simp [Instr.isDelim]) (by simp [instrDwell])) (dwell_ok _))
    (shutter_ok cfg on)) ?_
  intro c
  exact seq_ok (dwell_ok _ c) (fun c' => pure_ok c' _ (by simp [Instr.isDelim]) (by simp [instrDwell]))

theorem toggleStep_ok (cfg : Cfg) (s : Rat) (cs : CS) : OutOK cs (toggleStep cfg s cs).1 := by
  unfold toggleStep
  split
  · exact toggle_ok cfg false cs
  · split
    · exact toggle_ok cfg true cs
    · exact OutOK.nil cs

theorem maybeG1_ok (b : Bool) (prev : Option G1W) (w : G1W) :
    cleanList (maybeG1 b prev w) = true ∧ dwellOfList (maybeG1 b prev w) = 0 := by
  unfold maybeG1
  split
  · exact ⟨cleanList_emit _ (by simp [Instr.isDelim]), by simp [dwellOfList_emit, instrDwell]⟩
  · simp [cleanList, dwellOfList]

theorem writeLoop_ok (cfg : Cfg) (prev : Option G1W) (ws : List (G1W × Rat)) (cs : CS) :
    OutOK cs (writeLoop cfg prev ws cs) := by
  induction ws generalizing prev cs with
  | nil => exact OutOK.nil cs
  | cons hd rest ih =>
    obtain ⟨w, s⟩ := hd
    simp only [writeLoop]
    obtain ⟨c1, d1⟩ := toggleStep_ok cfg s cs
    obtain ⟨c2, d2⟩ := ih (some w) (toggleStep cfg s cs).1.2
    obtain ⟨c3, d3⟩ := maybeG1_ok (toggleStep cfg s cs).2 prev w
    refine ⟨?_, ?_⟩
    · simp [cleanList_append, c1, c2, c3]
    · simp only [dwellOfList_append, d1, d2, d3]; ring

theorem write_ok (cfg : Cfg) (m : List Pt) (cs : CS) (o : Out) (h : write cfg m cs = .ok o) : OutOK cs o := by
  unfold write at h
  cases hm : m.mapM (formatPt cfg) with
  | error e => rw [hm] at h; simp [Except.map] at h
  | ok ws =>
    rw [hm] at h
    simp only [Except.map] at h
    injection h with h
    subst h
    exact seq_ok (seq_ok (writeLoop_ok cfg none ws cs) (dwell_ok _))
      (fun c => pure_ok c _ (by simp [Instr.isDelim]) (by simp [instrDwell]))

theorem closeIfOpen_ok (cfg : Cfg) (cs : CS) : OutOK cs (closeIfOpen cfg cs) := by
  unfold closeIfOpen
  split
  · exact shutter_ok cfg false cs
  · exact OutOK.nil cs

theorem moveTo_ok (cfg : Cfg) (x y z sp : Option Rat) (cs : CS) : OutOK cs (moveTo cfg x y z sp cs).1 := by
  unfold moveTo
  cases formatArgs cfg.digits x y z (some (sp.getD cfg.speedPos)) with
  | error e => exact closeIfOpen_ok cfg cs
  | ok w =>
    refine seq_ok (seq_ok (closeIfOpen_ok cfg cs) (fun c => pure_ok c [.g1 w] (by simp [Instr.isDelim]) (by simp [instrDwell]))) ?_
    intro c
    exact seq_ok (dwell_ok _ c) (fun c' => pure_ok c' [.blank] (by simp [Instr.isDelim]) (by simp [instrDwell]))

theorem comment_ok (b : Bool) (cs : CS) : OutOK cs (comment b cs) := by
  unfold comment
  split <;> exact pure_ok cs _ (by simp [Instr.isDelim]) (by simp [instrDwell])

theorem enterRot_ok (cfg : Cfg) (a : Option Rat) (cs : CS) : OutOK cs (enterRot cfg a cs) := by
  unfold enterRot
  have h1 : OutOK cs (seq (seq (comment true cs) fun cs => (emit [.g1 (originW cfg), .g84 none], cs)) (dwell cfg.shortPause)) :=
    seq_ok (seq_ok (comment_ok true cs) (fun c => pure_ok c [.g1 (originW cfg), .g84 none] (by simp [Instr.isDelim]) (by simp [instrDwell]))) (dwell_ok _)
  split
  · exact h1
  · exact seq_ok (seq_ok h1 (fun c => pure_ok c [.g84 (some _), .blank] (by simp [Instr.isDelim]) (by simp [instrDwell]))) (dwell_ok _)

theorem exitRot_ok (cfg : Cfg) (cs : CS) : OutOK cs (exitRot cfg cs) := by
  unfold exitRot
  exact seq_ok (seq_ok (comment_ok true cs) (fun c => pure_ok c [.g1 (originW cfg), .g84 none] (by simp [Instr.isDelim]) (by simp [instrDwell]))) (dwell_ok _)

/-! results of operations -/

/-- a result is fine: body and hoisted declarations are clean, the hoisted part carries no dwell, and the dwell of
the body is the increase of the reported total — **also when the sequence stopped with an error** -/
def ResOK (cs : CS) (r : Res) : Prop :=
  cleanList r.out = true ∧ cleanList r.pre = true ∧ dwellOfList r.out = r.cs.dwellTotal - cs.dwellTotal ∧
    dwellOfList r.pre = 0

theorem ResOK.ofOut {cs : CS} {o : Out} (h : OutOK cs o) : ResOK cs (Res.ofOut o) := by
  obtain ⟨h1, h2⟩ := h
  exact ⟨h1, by simp [Res.ofOut, cleanList], h2, by simp [Res.ofOut, dwellOfList]⟩

theorem ResOK.stop (cs : CS) (e : Option Err) : ResOK cs { cs := cs, err := e } := by
  simp [ResOK, cleanList, dwellOfList]

theorem andThen_ok {cs : CS} {a : Res} {f : CS → Res} (ha : ResOK cs a) (hf : ∀ c, ResOK c (f c)) :
    ResOK cs (a.andThen f) := by
  unfold Res.andThen
  cases a.err with
  | some e => exact ha
  | none =>
    obtain ⟨a1, a2, a3, a4⟩ := ha
    obtain ⟨b1, b2, b3, b4⟩ := hf a.cs
    refine ⟨?_, ?_, ?_, ?_⟩
    · simp [cleanList_append, a1, b1]
    · simp [cleanList_append, a2, b2]
    · simp only [dwellOfList_append, a3, b3]; ring
    · simp only [dwellOfList_append, a4, b4]; ring

theorem moveRes_ok (cfg : Cfg) (x y z sp : Option Rat) (cs : CS) :
    ResOK cs (let r := moveTo cfg x y z sp cs; ({ out := r.1.1, cs := r.1.2, err := r.2 } : Res)) := by
  obtain ⟨h1, h2⟩ := moveTo_ok cfg x y z sp cs
  exact ⟨h1, by simp [cleanList], h2, by simp [dwellOfList]⟩

theorem loadOp_ok (p : String) (t : Nat) (cs : CS) : ResOK cs (loadOp p t cs) := by
  unfold loadOp
  split
  · exact ResOK.stop cs _
  · refine ⟨cleanList_emit _ (by simp [Instr.isDelim]), by simp [cleanList], ?_, by simp [dwellOfList]⟩
    simp [dwellOfList_emit, instrDwell]

theorem removeOp_ok (p : String) (t : Nat) (cs : CS) : ResOK cs (removeOp p t cs) := by
  unfold removeOp
  split
  · exact ResOK.stop cs _
  · split
    · exact ResOK.stop cs _
    · refine ⟨cleanList_emit _ (by simp [Instr.isDelim]), by simp [cleanList], ?_, by simp [dwellOfList]⟩
      simp [dwellOfList_emit, instrDwell]

theorem farcallOp_ok (cfg : Cfg) (p : String) (cs : CS) : ResOK cs (farcallOp cfg p cs) := by
  unfold farcallOp
  split
  · exact ResOK.stop cs _
  · split
    · exact ResOK.stop cs _
    · exact ResOK.ofOut (seq_ok (dwell_ok _ cs) (fun c => pure_ok c _ (by simp [Instr.isDelim]) (by simp [instrDwell])))

theorem bufferedOp_ok (cfg : Cfg) (p : String) (t : Nat) (cs : CS) : ResOK cs (bufferedOp cfg p t cs) := by
  unfold bufferedOp
  split
  · exact ResOK.stop cs _
  · split
    · exact ResOK.stop cs _
    · exact ResOK.ofOut (seq_ok (dwell_ok _ cs) (fun c => pure_ok c _ (by simp [Instr.isDelim]) (by simp [instrDwell])))

theorem farcallListOp_ok (cfg : Cfg) (items : List (String × Nat)) (cs : CS) : ResOK cs (farcallListOp cfg items cs) := by
  induction items generalizing cs with
  | nil => exact ResOK.stop cs none
  | cons hd rest ih =>
    obtain ⟨p, t⟩ := hd
    simp only [farcallListOp]
    refine andThen_ok (andThen_ok (andThen_ok (andThen_ok (loadOp_ok p t cs) (farcallOp_ok cfg _))
      (fun c => ResOK.ofOut (dwell_ok _ c))) (removeOp_ok _ t)) ?_
    intro c
    exact andThen_ok (ResOK.ofOut (seq_ok (dwell_ok _ c)
      (fun c' => pure_ok c' _ (by simp [Instr.isDelim]) (by simp [instrDwell])))) (fun c' => ih c')

theorem loop_dwell (n : Int) (hn : 0 < n) (a b d : Rat) (h : d = b - a) :
    (n.toNat : Rat) * d + 0 = b + loopIncr n a b - a := by
  have : ((n.toNat : Nat) : Rat) = (n : Rat) := by
    have := Int.toNat_of_nonneg (le_of_lt hn)
    exact_mod_cast congrArg (fun z : Int => (z : Rat)) this
  rw [this, h, loopIncr]; push_cast; ring

mutual
  theorem execOp_ok (cfg : Cfg) (op : Op) (cs : CS) : ResOK cs (execOp cfg op cs) := by
    match op with
    | .write m =>
      simp only [execOp]
      cases h : write cfg m cs with
      | ok o => exact ResOK.ofOut (write_ok cfg m cs o h)
      | error e => exact ResOK.stop cs _
    | .moveTo x y z sp => simp only [execOp]; exact moveRes_ok cfg x y z sp cs
    | .goOrigin =>
      simp only [execOp]
      exact andThen_ok (ResOK.ofOut (comment_ok true cs)) (fun c => moveRes_ok cfg _ _ _ _ c)
    | .goInit => simp only [execOp]; exact moveRes_ok cfg _ _ _ _ cs
    | .dwell p => simp only [execOp]; exact ResOK.ofOut (dwell_ok p cs)
    | .comment b => simp only [execOp]; exact ResOK.ofOut (comment_ok b cs)
    | .setHome x y z =>
      simp only [execOp]
      split
      · exact ResOK.stop cs _
      · exact ⟨cleanList_emit _ (by simp [Instr.isDelim]), by simp [cleanList], by simp [dwellOfList_emit, instrDwell],
          by simp [dwellOfList]⟩
    | .rep n body =>
      simp only [execOp]
      split
      · exact ResOK.stop cs _
      · rename_i hn
        obtain ⟨h1, h2, h3, h4⟩ := execOps_ok cfg body cs
        refine ⟨?_, h2, ?_, h4⟩
        · simp [cleanList, Stmt.clean, h1, Instr.isDelim]
        · simp only [dwellOfList, dwellOf]
          have := loop_dwell n (by omega) cs.dwellTotal (execOps cfg body cs).cs.dwellTotal _ h3
          simpa using this
    | .forr v n body =>
      simp only [execOp]
      split
      · exact ResOK.stop cs _
      · split
        · exact ResOK.stop cs _
        · rename_i hn _
          obtain ⟨h1, h2, h3, h4⟩ := execOps_ok cfg body cs
          refine ⟨?_, h2, ?_, h4⟩
          · simp [cleanList, Stmt.clean, h1, Instr.isDelim]
          · simp only [dwellOfList, dwellOf]
            have := loop_dwell n (by omega) cs.dwellTotal (execOps cfg body cs).cs.dwellTotal _ h3
            have e : (n - 1 - 0 + 1).toNat = n.toNat := by congr 1; ring
            rw [e]
            simpa using this
    | .axisRot a body =>
      simp only [execOp]
      obtain ⟨a1, a2⟩ := enterRot_ok cfg a cs
      obtain ⟨h1, h2, h3, h4⟩ := execOps_ok cfg body (enterRot cfg a cs).2
      obtain ⟨x1, x2⟩ := exitRot_ok cfg (execOps cfg body (enterRot cfg a cs).2).cs
      refine ⟨?_, h2, ?_, h4⟩
      · simp [cleanList_append, a1, h1, x1]
      · simp only [dwellOfList_append, a2, h3, x2]; ring
    | .dvar vs =>
      simp only [execOp]
      exact ⟨by simp [cleanList], cleanList_emit _ (by simp [Instr.isDelim]), by simp [dwellOfList],
        by simp [dwellOfList_emit, instrDwell]⟩
    | .load p t => simp only [execOp]; exact loadOp_ok p t cs
    | .farcall p => simp only [execOp]; exact farcallOp_ok cfg p cs
    | .buffered p t => simp only [execOp]; exact bufferedOp_ok cfg p t cs
    | .remove p t => simp only [execOp]; exact removeOp_ok p t cs
    | .farcallList items => simp only [execOp]; exact farcallListOp_ok cfg items cs
    | .raise => simp only [execOp]; exact ResOK.stop cs _
    | .attempt body => simp only [execOp]; exact execOps_ok cfg body cs
    | .loadBad p => simp only [execOp]; exact ResOK.stop cs _
  theorem execOps_ok (cfg : Cfg) (ops : List Op) (cs : CS) : ResOK cs (execOps cfg ops cs) := by
    match ops with
    | [] => simp only [execOps]; exact ResOK.stop cs none
    | op :: ops =>
      simp only [execOps]
      have ha := execOp_ok cfg op cs
      cases he : (execOp cfg op cs).err with
      | some e => simpa [he] using ha
      | none =>
        simp only [he]
        obtain ⟨a1, a2, a3, a4⟩ := ha
        obtain ⟨b1, b2, b3, b4⟩ := execOps_ok cfg ops (execOp cfg op cs).cs
        refine ⟨?_, ?_, ?_, ?_⟩
        · simp [cleanList_append, a1, b1]
        · simp [cleanList_append, a2, b2]
        · simp only [dwellOfList_append, a3, b3]; ring
        · simp only [dwellOfList_append, a4, b4]; ring
end

end Femto.Gc

/-
"An activated axis rotation is deactivated": in program order the G84 state after any compiled session is off.
`G84` lines are emitted only by `enterRot` / `exitRot`; `exitRot` always ends with `G84 X Y` (rotation off) and every
`axisRot` block — and the session-wide rotation — is closed by it, also when the body stopped with an error.
-/
import FemtoVerif.Proofs.GcLemmas
import FemtoVerif.Proofs.Exec
import FemtoVerif.Spec.WF

set_option linter.unusedSimpArgs false
set_option linter.unusedVariables false

namespace Femto.Gc
open Femto.Ctl

def noG84Instr : Instr → Bool
  | .g84 _ => false
  | _ => true

mutual
  def noG84Stmt : Stmt → Bool
    | .atom i => noG84Instr i
    | .rep _ body => noG84List body
    | .forr _ _ _ body => noG84List body
  def noG84List : List Stmt → Bool
    | [] => true
    | s :: ss => noG84Stmt s && noG84List ss
end

theorem noG84_append (a b : List Stmt) : noG84List (a ++ b) = (noG84List a && noG84List b) := by
  induction a with
  | nil => simp [noG84List]
  | cons s ss ih => simp [noG84List, ih, Bool.and_assoc]

theorem noG84_emit (is : List Instr) (h : ∀ i ∈ is, noG84Instr i = true) : noG84List (emit is) = true := by
  induction is with
  | nil => simp [emit, noG84List]
  | cons i is ih =>
    simp only [emit, List.map_cons, noG84List, noG84Stmt, Bool.and_eq_true]
    exact ⟨h i (by simp), by simpa [emit] using ih (fun j hj => h j (by simp [hj]))⟩

theorem seq_noG84 {a : Out} {f : CS → Out} (ha : noG84List a.1 = true) (hf : ∀ c, noG84List (f c).1 = true) :
    noG84List (seq a f).1 = true := by
  simp [seq, noG84_append, ha, hf]

theorem dwell_noG84 (p : Option Rat) (cs : CS) : noG84List (dwell p cs).1 = true := by
  unfold dwell
  split
  · simp [noG84List]
  · split <;> simp [noG84List, emit, noG84Stmt, noG84Instr]

theorem shutter_noG84 (cfg : Cfg) (on : Bool) (cs : CS) : noG84List (shutter cfg on cs).1 = true := by
  unfold shutter
  split
  · simp [noG84List, emit, noG84Stmt, noG84Instr]
  · split <;> simp [noG84List, emit, noG84Stmt, noG84Instr]

theorem toggle_noG84 (cfg : Cfg) (on : Bool) (cs : CS) : noG84List (toggle cfg on cs).1 = true := by
  unfold toggle
  refine seq_noG84 (seq_noG84 (seq_noG84 (by simp [noG84List, emit, noG84Stmt, noG84Instr]) (dwell_noG84 _)) (shutter_noG84 cfg on)) ?_
  intro c
  exact seq_noG84 (dwell_noG84 _ _) (fun c' => by simp [noG84List, emit, noG84Stmt, noG84Instr])

theorem writeLoop_noG84 (cfg : Cfg) (prev : Option G1W) (ws : List (G1W × Rat)) (cs : CS) :
    noG84List (writeLoop cfg prev ws cs).1 = true := by
  induction ws generalizing prev cs with
  | nil => simp [writeLoop, noG84List]
  | cons hd rest ih =>
    obtain ⟨w, s⟩ := hd
    simp only [writeLoop, noG84_append, Bool.and_eq_true]
    refine ⟨⟨?_, ?_⟩, ih _ _⟩
    · unfold toggleStep
      split
      · exact toggle_noG84 cfg false cs
      · split
        · exact toggle_noG84 cfg true cs
        · simp [noG84List]
    · unfold maybeG1
      split <;> simp [noG84List, emit, noG84Stmt, noG84Instr]

theorem write_noG84 (cfg : Cfg) (m : List Pt) (cs : CS) (o : Out) (h : write cfg m cs = .ok o) : noG84List o.1 = true := by
  unfold write at h
  cases hm : m.mapM (formatPt cfg) with
  | error e => rw [hm] at h; simp [Except.map] at h
  | ok ws =>
    rw [hm] at h
    simp only [Except.map] at h
    injection h with h; subst h
    exact seq_noG84 (seq_noG84 (writeLoop_noG84 cfg none ws cs) (dwell_noG84 _))
      (fun c => by simp [noG84List, emit, noG84Stmt, noG84Instr])

theorem closeIfOpen_noG84 (cfg : Cfg) (cs : CS) : noG84List (closeIfOpen cfg cs).1 = true := by
  unfold closeIfOpen
  split
  · exact shutter_noG84 cfg false cs
  · simp [noG84List]

theorem moveTo_noG84 (cfg : Cfg) (x y z sp : Option Rat) (cs : CS) : noG84List (moveTo cfg x y z sp cs).1.1 = true := by
  unfold moveTo
  split
  · exact closeIfOpen_noG84 cfg cs
  · refine seq_noG84 (seq_noG84 (closeIfOpen_noG84 cfg cs) (fun c => by simp [noG84List, emit, noG84Stmt, noG84Instr])) ?_
    intro c
    exact seq_noG84 (dwell_noG84 _ _) (fun c' => by simp [noG84List, emit, noG84Stmt, noG84Instr])

theorem comment_noG84 (b : Bool) (cs : CS) : noG84List (comment b cs).1 = true := by
  unfold comment; split <;> simp [noG84List, emit, noG84Stmt, noG84Instr]

/-! ### the G84 state in program order -/

/-- G84 state after a structured program, in program order, from state `r` -/
def rotEnd (ss : List Stmt) (r : Bool) : Bool := scanRot (flattenStmts ss) r

theorem scanRot_append (a b : List Instr) (r : Bool) : scanRot (a ++ b) r = scanRot b (scanRot a r) := by
  induction a generalizing r with
  | nil => rfl
  | cons i is ih =>
    cases i <;> simp only [List.cons_append, scanRot, ih]
    case g84 a => cases a <;> simp [scanRot, ih]

theorem rotEnd_append (a b : List Stmt) (r : Bool) : rotEnd (a ++ b) r = rotEnd b (rotEnd a r) := by
  simp [rotEnd, flattenStmts_append, scanRot_append]

theorem scanRot_delim (i : Instr) (h : noG84Instr i = true) (is : List Instr) (r : Bool) : scanRot (i :: is) r = scanRot is r := by
  cases i <;> simp_all [scanRot, noG84Instr]

mutual
  theorem rotEnd_noG84Stmt (s : Stmt) (h : noG84Stmt s = true) (r : Bool) : scanRot (flattenStmt s) r = r := by
    match s with
    | .atom i =>
      simp only [flattenStmt]
      rw [noG84Stmt] at h
      rw [scanRot_delim i h]; rfl
    | .rep n body =>
      rw [noG84Stmt] at h
      simp only [flattenStmt]
      rw [scanRot_delim _ (by rfl), scanRot_append, rotEnd_noG84List body h r]
      rfl
    | .forr v lo hi body =>
      rw [noG84Stmt] at h
      simp only [flattenStmt]
      rw [scanRot_delim _ (by rfl), scanRot_append, rotEnd_noG84List body h r]
      rfl
  theorem rotEnd_noG84List (ss : List Stmt) (h : noG84List ss = true) (r : Bool) : scanRot (flattenStmts ss) r = r := by
    match ss with
    | [] => rfl
    | s :: rest =>
      rw [noG84List, Bool.and_eq_true] at h
      simp only [flattenStmts]
      rw [scanRot_append, rotEnd_noG84Stmt s h.1 r, rotEnd_noG84List rest h.2 r]
end

/-- an output is rotation-safe: in program order it either leaves the G84 state as it was or switches it off -/
def RotOK (out : List Stmt) : Prop := ∀ r, rotEnd out r = false ∨ rotEnd out r = r

theorem RotOK.ofNoG84 {out : List Stmt} (h : noG84List out = true) : RotOK out := fun r => Or.inr (rotEnd_noG84List out h r)

theorem RotOK.append {a b : List Stmt} (ha : RotOK a) (hb : RotOK b) : RotOK (a ++ b) := by
  intro r
  rw [rotEnd_append]
  rcases ha r with h | h <;> rcases hb (rotEnd a r) with h' | h'
  · exact Or.inl h'
  · exact Or.inl (h'.trans h)
  · exact Or.inl h'
  · exact Or.inr (by rw [h', h])

theorem rotEnd_rep (n : Nat) (body : List Stmt) (r : Bool) : rotEnd [Stmt.rep n body, Stmt.atom .blank] r = rotEnd body r := by
  simp only [rotEnd, flattenStmts, flattenStmt, List.append_nil, List.cons_append]
  rw [scanRot_delim _ (by rfl), scanRot_append, scanRot_append]
  rfl

theorem rotEnd_forr (v : String) (lo hi : Int) (body : List Stmt) (r : Bool) :
    rotEnd [Stmt.forr v lo hi body, Stmt.atom .blank] r = rotEnd body r := by
  simp only [rotEnd, flattenStmts, flattenStmt, List.append_nil, List.cons_append]
  rw [scanRot_delim _ (by rfl), scanRot_append, scanRot_append]
  rfl

/-- leaving a rotation always ends with the rotation off, whatever the state before -/
theorem exitRot_off (cfg : Cfg) (cs : CS) (r : Bool) : rotEnd (exitRot cfg cs).1 r = false := by
  unfold exitRot
  simp only [seq]
  rw [rotEnd_append, rotEnd_append]
  have h1 : rotEnd (emit [Instr.g1 (originW cfg), Instr.g84 none]) (rotEnd (comment true cs).1 r) = false := by
    simp [rotEnd, emit, flattenStmts, flattenStmt, scanRot]
  rw [h1]
  exact rotEnd_noG84List _ (dwell_noG84 _ _) false

theorem RotOK.exit (cfg : Cfg) (cs : CS) : RotOK (exitRot cfg cs).1 := fun r => Or.inl (exitRot_off cfg cs r)

/-- anything followed by `exitRot` ends with the rotation off -/
theorem rotEnd_then_exit (cfg : Cfg) (a : List Stmt) (cs : CS) (r : Bool) : rotEnd (a ++ (exitRot cfg cs).1) r = false := by
  rw [rotEnd_append]; exact exitRot_off cfg cs _

def ResRot (r : Res) : Prop := RotOK r.out ∧ noG84List r.pre = true

theorem ResRot.ofOut {o : Out} (h : noG84List o.1 = true) : ResRot (Res.ofOut o) :=
  ⟨RotOK.ofNoG84 h, by simp [Res.ofOut, noG84List]⟩

theorem ResRot.stop (cs : CS) (e : Option Err) : ResRot { cs := cs, err := e } :=
  ⟨RotOK.ofNoG84 (by simp [noG84List]), by simp [noG84List]⟩

theorem ResRot.ofNoG84 {r : Res} (h1 : noG84List r.out = true) (h2 : noG84List r.pre = true) : ResRot r := ⟨RotOK.ofNoG84 h1, h2⟩

theorem andThen_rot {a : Res} {f : CS → Res} (ha : ResRot a) (hf : ∀ c, ResRot (f c)) : ResRot (a.andThen f) := by
  unfold Res.andThen
  split
  · exact ha
  · exact ⟨ha.1.append (hf _).1, by simp [noG84_append, ha.2, (hf _).2]⟩

theorem loadOp_rot (p : String) (t : Nat) (cs : CS) : ResRot (loadOp p t cs) := by
  unfold loadOp
  split
  · exact ResRot.stop cs _
  · exact ResRot.ofNoG84 (by simp [noG84List, emit, noG84Stmt, noG84Instr]) (by simp [noG84List])

theorem removeOp_rot (p : String) (t : Nat) (cs : CS) : ResRot (removeOp p t cs) := by
  unfold removeOp
  split
  · exact ResRot.stop cs _
  · split
    · exact ResRot.stop cs _
    · exact ResRot.ofNoG84 (by simp [noG84List, emit, noG84Stmt, noG84Instr]) (by simp [noG84List])

theorem farcallOp_rot (cfg : Cfg) (p : String) (cs : CS) : ResRot (farcallOp cfg p cs) := by
  unfold farcallOp
  split
  · exact ResRot.stop cs _
  · split
    · exact ResRot.stop cs _
    · exact ResRot.ofOut (seq_noG84 (dwell_noG84 _ _) (fun c => by simp [noG84List, emit, noG84Stmt, noG84Instr]))

theorem bufferedOp_rot (cfg : Cfg) (p : String) (t : Nat) (cs : CS) : ResRot (bufferedOp cfg p t cs) := by
  unfold bufferedOp
  split
  · exact ResRot.stop cs _
  · split
    · exact ResRot.stop cs _
    · exact ResRot.ofOut (seq_noG84 (dwell_noG84 _ _) (fun c => by simp [noG84List, emit, noG84Stmt, noG84Instr]))

theorem farcallListOp_rot (cfg : Cfg) (items : List (String × Nat)) (cs : CS) : ResRot (farcallListOp cfg items cs) := by
  induction items generalizing cs with
  | nil => simp only [farcallListOp]; exact ResRot.stop cs none
  | cons it rest ih =>
    obtain ⟨p, t⟩ := it
    simp only [farcallListOp]
    refine andThen_rot (andThen_rot (andThen_rot (andThen_rot (loadOp_rot p t cs) (fun c => farcallOp_rot cfg _ c))
      (fun c => ResRot.ofOut (dwell_noG84 _ _))) (fun c => removeOp_rot _ t c)) ?_
    intro c
    exact andThen_rot (ResRot.ofOut (seq_noG84 (dwell_noG84 _ _) (fun c' => by simp [noG84List, emit, noG84Stmt, noG84Instr])))
      (fun c' => ih c')

theorem moveRes_rot (cfg : Cfg) (x y z sp : Option Rat) (cs : CS) :
    ResRot (let r := moveTo cfg x y z sp cs; ({ out := r.1.1, cs := r.1.2, err := r.2 } : Res)) :=
  ⟨RotOK.ofNoG84 (moveTo_noG84 cfg x y z sp cs), by simp [noG84List]⟩

mutual
  theorem execOp_rot (cfg : Cfg) (op : Op) (cs : CS) : ResRot (execOp cfg op cs) := by
    match op with
    | .write m =>
      simp only [execOp]
      cases h : write cfg m cs with
      | ok o => exact ResRot.ofOut (write_noG84 cfg m cs o h)
      | error e => exact ResRot.stop cs _
    | .moveTo x y z sp => simp only [execOp]; exact moveRes_rot cfg x y z sp cs
    | .goOrigin =>
      simp only [execOp]
      exact andThen_rot (ResRot.ofOut (comment_noG84 true cs)) (fun c => moveRes_rot cfg _ _ _ _ c)
    | .goInit => simp only [execOp]; exact moveRes_rot cfg _ _ _ _ cs
    | .dwell p => simp only [execOp]; exact ResRot.ofOut (dwell_noG84 p cs)
    | .comment b => simp only [execOp]; exact ResRot.ofOut (comment_noG84 b cs)
    | .setHome x y z =>
      simp only [execOp]
      split
      · exact ResRot.stop cs _
      · exact ResRot.ofNoG84 (by simp [noG84List, emit, noG84Stmt, noG84Instr]) (by simp [noG84List])
    | .rep n body =>
      simp only [execOp]
      split
      · exact ResRot.stop cs _
      · obtain ⟨h1, h2⟩ := execOps_rot cfg body cs
        refine ⟨?_, h2⟩
        intro r
        rw [rotEnd_rep]
        exact h1 r
    | .forr v n body =>
      simp only [execOp]
      split
      · exact ResRot.stop cs _
      · split
        · exact ResRot.stop cs _
        · obtain ⟨h1, h2⟩ := execOps_rot cfg body cs
          refine ⟨?_, h2⟩
          intro r
          rw [rotEnd_forr]
          exact h1 r
    | .axisRot a body =>
      simp only [execOp]
      obtain ⟨_, h2⟩ := execOps_rot cfg body (enterRot cfg a cs).2
      refine ⟨?_, h2⟩
      intro r
      exact Or.inl (rotEnd_then_exit cfg _ _ r)
    | .dvar vs =>
      simp only [execOp]
      exact ResRot.ofNoG84 (by simp [noG84List]) (by simp [noG84List, emit, noG84Stmt, noG84Instr])
    | .load p t => simp only [execOp]; exact loadOp_rot p t cs
    | .farcall p => simp only [execOp]; exact farcallOp_rot cfg p cs
    | .buffered p t => simp only [execOp]; exact bufferedOp_rot cfg p t cs
    | .remove p t => simp only [execOp]; exact removeOp_rot p t cs
    | .farcallList items => simp only [execOp]; exact farcallListOp_rot cfg items cs
    | .raise => simp only [execOp]; exact ResRot.stop cs _
    | .attempt body => simp only [execOp]; exact execOps_rot cfg body cs
    | .loadBad p => simp only [execOp]; exact ResRot.stop cs _
  theorem execOps_rot (cfg : Cfg) (ops : List Op) (cs : CS) : ResRot (execOps cfg ops cs) := by
    match ops with
    | [] => simp only [execOps]; exact ResRot.stop cs none
    | op :: ops =>
      simp only [execOps]
      have ha := execOp_rot cfg op cs
      cases he : (execOp cfg op cs).err with
      | some e => simpa [he] using ha
      | none =>
        simp only [he]
        obtain ⟨a1, a2⟩ := ha
        obtain ⟨b1, b2⟩ := execOps_rot cfg ops (execOp cfg op cs).cs
        exact ⟨a1.append b1, by simp [noG84_append, a2, b2]⟩
end

theorem rotEnd_noG (ss : List Stmt) (h : noG84List ss = true) (r : Bool) : rotEnd ss r = r := rotEnd_noG84List ss h r

theorem rotEnd_nil (r : Bool) : rotEnd [] r = r := rfl

/-- **the whole session ends with the rotation off** (program order), provided the laser header does: whatever the
operations, wherever one of them stopped with an error -/
theorem session_rot_off (cfg : Cfg) (ops : List Op) (hh : scanRot cfg.header false = false) :
    rotEnd (session cfg ops).1 false = false := by
  unfold session
  simp only
  generalize hh0 : seq (seq (emit (cfg.header ++ [Instr.blank]), ({} : CS)) (dwell (some 1))) (fun cs => (emit [Instr.blank], cs)) = h0
  have hhead : rotEnd h0.1 false = false := by
    subst hh0
    simp only [seq]
    rw [rotEnd_append, rotEnd_append]
    have e1 : rotEnd (emit (cfg.header ++ [Instr.blank])) false = false := by
      simp only [rotEnd, flattenStmts_emit, scanRot_append, hh]; rfl
    rw [e1, rotEnd_noG _ (dwell_noG84 _ _)]
    simp [rotEnd, emit, flattenStmts, flattenStmt, scanRot]
  by_cases ha : cfg.aeroAngle = 0
  · simp only [ha, if_true]
    obtain ⟨r1, r2⟩ := execOps_rot cfg ops h0.2
    have hout : rotEnd (execOps cfg ops h0.2).out false = false := by
      have := r1 false
      simpa using this
    split
    · simp only [rotEnd_append]
      rw [rotEnd_noG _ r2, hhead, hout, rotEnd_nil]
      exact rotEnd_noG _ (moveTo_noG84 cfg _ _ _ _ _) false
    · simp only [rotEnd_append]
      rw [rotEnd_noG _ r2, hhead, hout, rotEnd_nil, rotEnd_nil]
  · simp only [ha, if_false]
    generalize hen : seq h0 (enterRot cfg (some cfg.aeroAngle)) = h1
    have hexit : ∀ (cs : CS) (r : Bool), rotEnd (seq (exitRot cfg cs) fun cs => (emit [Instr.blank], cs)).1 r = false := by
      intro cs r
      simp only [seq]
      rw [rotEnd_append, exitRot_off]
      rfl
    split
    · simp only [rotEnd_append]
      rw [hexit]
      exact rotEnd_noG _ (moveTo_noG84 cfg _ _ _ _ _) false
    · simp only [rotEnd_append]
      rw [hexit, rotEnd_nil]

end Femto.Gc

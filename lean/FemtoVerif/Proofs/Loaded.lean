/-
"Every called sub-program was loaded before": in program order, every `FARCALL` / `PROGRAM n BUFFEREDRUN` /
`REMOVEPROGRAM` of a compiled session names a program that an earlier `PROGRAM n LOAD` brought in and no `REMOVEPROGRAM`
in between took out (`scanLoaded` of `Spec/WF.lean` succeeds on the whole text) — provided the names used in the session are
told apart by the compiler's bookkeeping (`stemOf`: case-sensitive stem of the POSIX file name) exactly when the controller
tells them apart (`progKey`: lower-cased base name without the last extension).  Without that hypothesis the statement is
false; the counter-example is in `Props/C03.lean`.
-/
import FemtoVerif.Proofs.GcLemmas
import FemtoVerif.Proofs.Exec
import FemtoVerif.Spec.WF
import Mathlib.Data.List.TakeWhile

set_option linter.unusedSimpArgs false
set_option linter.unusedVariables false

namespace Femto.Gc
open Femto.Ctl

/-! ### instructions that do not touch the set of loaded programs -/

def noLdInstr : Instr → Bool
  | .load _ _ => false
  | .remove _ => false
  | .farcall _ => false
  | .buffered _ _ => false
  | _ => true

mutual
  def noLdStmt : Stmt → Bool
    | .atom i => noLdInstr i
    | .rep _ body => noLdList body
    | .forr _ _ _ body => noLdList body
  def noLdList : List Stmt → Bool
    | [] => true
    | s :: ss => noLdStmt s && noLdList ss
end

theorem noLd_append (a b : List Stmt) : noLdList (a ++ b) = (noLdList a && noLdList b) := by
  induction a with
  | nil => simp [noLdList]
  | cons s ss ih => simp [noLdList, ih, Bool.and_assoc]

/-- an emitting step that neither prints a load / call / remove line nor changes the compiler's list of loaded programs -/
def LdQuiet (cs : CS) (o : Out) : Prop := noLdList o.1 = true ∧ o.2.loaded = cs.loaded

theorem LdQuiet.nil (cs : CS) : LdQuiet cs ([], cs) := ⟨by simp [noLdList], rfl⟩

theorem LdQuiet.seq {cs : CS} {a : Out} {f : CS → Out} (ha : LdQuiet cs a) (hf : ∀ c, LdQuiet c (f c)) : LdQuiet cs (seq a f) := by
  refine ⟨?_, ?_⟩
  · simp [Femto.Gc.seq, noLd_append, ha.1, (hf a.2).1]
  · simp only [Femto.Gc.seq]; rw [(hf a.2).2, ha.2]

theorem dwell_ldq (p : Option Rat) (cs : CS) : LdQuiet cs (dwell p cs) := by
  unfold dwell
  split
  · exact LdQuiet.nil cs
  · split
    · exact LdQuiet.nil cs
    · exact ⟨by simp [noLdList, emit, noLdStmt, noLdInstr], rfl⟩

theorem shutter_ldq (cfg : Cfg) (on : Bool) (cs : CS) : LdQuiet cs (shutter cfg on cs) := by
  unfold shutter
  split
  · exact ⟨by simp [noLdList, emit, noLdStmt, noLdInstr], rfl⟩
  · split
    · exact ⟨by simp [noLdList, emit, noLdStmt, noLdInstr], rfl⟩
    · exact LdQuiet.nil cs

theorem emit_ldq (cs : CS) (is : List Instr) (h : ∀ i ∈ is, noLdInstr i = true) : LdQuiet cs (emit is, cs) := by
  refine ⟨?_, rfl⟩
  induction is with
  | nil => simp [emit, noLdList]
  | cons i is ih =>
    simp only [emit, List.map_cons, noLdList, noLdStmt, Bool.and_eq_true]
    exact ⟨h i (by simp), by simpa [emit] using ih (fun j hj => h j (by simp [hj]))⟩

theorem toggle_ldq (cfg : Cfg) (on : Bool) (cs : CS) : LdQuiet cs (toggle cfg on cs) := by
  unfold toggle
  refine LdQuiet.seq (LdQuiet.seq (LdQuiet.seq (emit_ldq cs _ (by simp [noLdInstr])) (dwell_ldq _)) (shutter_ldq cfg on)) ?_
  intro c
  exact LdQuiet.seq (dwell_ldq _ _) (fun c' => emit_ldq c' _ (by simp [noLdInstr]))

theorem writeLoop_ldq (cfg : Cfg) (prev : Option G1W) (ws : List (G1W × Rat)) (cs : CS) :
    LdQuiet cs (writeLoop cfg prev ws cs) := by
  induction ws generalizing prev cs with
  | nil => simp only [writeLoop]; exact LdQuiet.nil cs
  | cons hd rest ih =>
    obtain ⟨w, s⟩ := hd
    have ht : LdQuiet cs (toggleStep cfg s cs).1 := by
      unfold toggleStep
      split
      · exact toggle_ldq cfg false cs
      · split
        · exact toggle_ldq cfg true cs
        · exact LdQuiet.nil cs
    have hr := ih (some w) (toggleStep cfg s cs).1.2
    have hg : noLdList (maybeG1 (toggleStep cfg s cs).2 prev w) = true := by
      unfold maybeG1
      split <;> simp [noLdList, emit, noLdStmt, noLdInstr]
    refine ⟨?_, ?_⟩
    · simp only [writeLoop, noLd_append, Bool.and_eq_true]
      exact ⟨⟨ht.1, hg⟩, hr.1⟩
    · simp only [writeLoop]; rw [hr.2, ht.2]

theorem write_ldq (cfg : Cfg) (m : List Pt) (cs : CS) (o : Out) (h : write cfg m cs = .ok o) : LdQuiet cs o := by
  unfold write at h
  cases hm : m.mapM (formatPt cfg) with
  | error e => rw [hm] at h; simp [Except.map] at h
  | ok ws =>
    rw [hm] at h
    simp only [Except.map] at h
    injection h with h; subst h
    exact LdQuiet.seq (LdQuiet.seq (writeLoop_ldq cfg none ws cs) (dwell_ldq _))
      (fun c => emit_ldq c _ (by simp [noLdInstr]))

theorem closeIfOpen_ldq (cfg : Cfg) (cs : CS) : LdQuiet cs (closeIfOpen cfg cs) := by
  unfold closeIfOpen
  split
  · exact shutter_ldq cfg false cs
  · exact LdQuiet.nil cs

theorem moveTo_ldq (cfg : Cfg) (x y z sp : Option Rat) (cs : CS) : LdQuiet cs (moveTo cfg x y z sp cs).1 := by
  unfold moveTo
  split
  · exact closeIfOpen_ldq cfg cs
  · refine LdQuiet.seq (LdQuiet.seq (closeIfOpen_ldq cfg cs) (fun c => emit_ldq c _ (by simp [noLdInstr]))) ?_
    intro c
    exact LdQuiet.seq (dwell_ldq _ _) (fun c' => emit_ldq c' _ (by simp [noLdInstr]))

theorem comment_ldq (b : Bool) (cs : CS) : LdQuiet cs (comment b cs) := by
  unfold comment; split <;> exact emit_ldq cs _ (by simp [noLdInstr])

theorem exitRot_ldq (cfg : Cfg) (cs : CS) : LdQuiet cs (exitRot cfg cs) := by
  unfold exitRot
  exact LdQuiet.seq (LdQuiet.seq (comment_ldq true cs) (fun c => emit_ldq c _ (by simp [noLdInstr]))) (dwell_ldq _)

theorem enterRot_ldq (cfg : Cfg) (a : Option Rat) (cs : CS) : LdQuiet cs (enterRot cfg a cs) := by
  unfold enterRot
  have h0 : LdQuiet cs (Femto.Gc.seq (Femto.Gc.seq (comment true cs) fun cs => (emit [.g1 (originW cfg), .g84 none], cs)) (dwell cfg.shortPause)) :=
    LdQuiet.seq (LdQuiet.seq (comment_ldq true cs) (fun c => emit_ldq c _ (by simp [noLdInstr]))) (dwell_ldq _)
  simp only
  split
  · exact h0
  · exact LdQuiet.seq (LdQuiet.seq h0 (fun c => emit_ldq c _ (by simp [noLdInstr]))) (dwell_ldq _)

/-! ### the program-order scan -/

/-- the loaded set after a structured program, in program order, from the set `L` (`none`: some call / remove names a
program that is not loaded at that point of the text) -/
def ldEnd (ss : List Stmt) (L : List String) : Option (List String) := scanLoaded (flattenStmts ss) L

theorem scanLoaded_append (a b : List Instr) (L : List String) :
    scanLoaded (a ++ b) L = (scanLoaded a L).bind (scanLoaded b) := by
  induction a generalizing L with
  | nil => simp [scanLoaded]
  | cons i is ih =>
    cases i <;> simp only [List.cons_append, scanLoaded, ih]
    all_goals (split <;> simp)

theorem ldEnd_append (a b : List Stmt) (L : List String) : ldEnd (a ++ b) L = (ldEnd a L).bind (ldEnd b) := by
  unfold ldEnd
  rw [flattenStmts_append, scanLoaded_append]

theorem scanLoaded_skip (i : Instr) (h : noLdInstr i = true) (is : List Instr) (L : List String) :
    scanLoaded (i :: is) L = scanLoaded is L := by
  cases i <;> simp_all [scanLoaded, noLdInstr]

mutual
  theorem scan_noLdStmt (s : Stmt) (h : noLdStmt s = true) (L : List String) : scanLoaded (flattenStmt s) L = some L := by
    match s with
    | .atom i =>
      simp only [flattenStmt]
      rw [noLdStmt] at h
      rw [scanLoaded_skip i h]; rfl
    | .rep n body =>
      rw [noLdStmt] at h
      simp only [flattenStmt]
      rw [scanLoaded_skip _ (by rfl), scanLoaded_append, scan_noLdList body h L]
      rfl
    | .forr v lo hi body =>
      rw [noLdStmt] at h
      simp only [flattenStmt]
      rw [scanLoaded_skip _ (by rfl), scanLoaded_append, scan_noLdList body h L]
      rfl
  theorem scan_noLdList (ss : List Stmt) (h : noLdList ss = true) (L : List String) : scanLoaded (flattenStmts ss) L = some L := by
    match ss with
    | [] => rfl
    | s :: rest =>
      rw [noLdList, Bool.and_eq_true] at h
      simp only [flattenStmts]
      rw [scanLoaded_append, scan_noLdStmt s h.1 L]
      simpa using scan_noLdList rest h.2 L
end

theorem ldEnd_noLd (ss : List Stmt) (h : noLdList ss = true) (L : List String) : ldEnd ss L = some L := scan_noLdList ss h L

theorem ldEnd_rep (n : Nat) (body : List Stmt) (L : List String) : ldEnd [Stmt.rep n body, Stmt.atom .blank] L = ldEnd body L := by
  simp only [ldEnd, flattenStmts, flattenStmt, List.append_nil, List.cons_append]
  rw [scanLoaded_skip _ (by rfl), scanLoaded_append, scanLoaded_append]
  cases scanLoaded (flattenStmts body) L <;> simp [scanLoaded]

theorem ldEnd_forr (v : String) (lo hi : Int) (body : List Stmt) (L : List String) :
    ldEnd [Stmt.forr v lo hi body, Stmt.atom .blank] L = ldEnd body L := by
  simp only [ldEnd, flattenStmts, flattenStmt, List.append_nil, List.cons_append]
  rw [scanLoaded_skip _ (by rfl), scanLoaded_append, scanLoaded_append]
  cases scanLoaded (flattenStmts body) L <;> simp [scanLoaded]

/-! ### the two notions of "the same program" -/

theorem posixName_idem (p : String) : posixName (posixName p) = posixName p := by
  simp [posixName, List.takeWhile_idem]

theorem stemOf_posixName (p : String) : stemOf (posixName p) = stemOf p := by
  simp only [stemOf, posixName_idem]

theorem baseName_posixName (p : String) : baseName (posixName p) = baseName p := by
  simp only [baseName, posixName, String.toList_ofList, List.reverse_reverse, List.takeWhile_takeWhile]
  congr 3
  funext c
  by_cases h : c = '/' <;> by_cases h' : c = '\\' <;> simp [h, h']

theorem progKey_posixName (p : String) : progKey (posixName p) = progKey p := by
  simp only [progKey, baseName_posixName]

theorem isPgm_posixName (p : String) : isPgm (posixName p) = isPgm p := by
  simp only [isPgm, posixName_idem]

/-- the compiler and the controller tell the names in `U` apart in the same way -/
def KeysAgree (U : List String) : Prop := ∀ p ∈ U, ∀ q ∈ U, (stemOf p = stemOf q ↔ progKey p = progKey q)

instance (U : List String) : Decidable (KeysAgree U) := by unfold KeysAgree; infer_instance

/-- program-order loaded set `L` of the controller vs. the compiler's list `S` -/
def Rel (U : List String) (L S : List String) : Prop := S.Nodup ∧ ∀ q ∈ U, (stemOf q ∈ S ↔ progKey q ∈ L)

mutual
  /-- file names mentioned by an operation -/
  def pathsOp : Op → List String
    | .load p _ => [p]
    | .farcall p => [p]
    | .buffered p _ => [p]
    | .remove p _ => [p]
    | .farcallList items => items.map (·.1)
    | .rep _ body => pathsOps body
    | .forr _ _ body => pathsOps body
    | .axisRot _ body => pathsOps body
    | .attempt body => pathsOps body
    | _ => []
  def pathsOps : List Op → List String
    | [] => []
    | op :: ops => pathsOp op ++ pathsOps ops
end

/-- what an operation result must satisfy: from any related pair the scan of the output succeeds and ends related -/
def ResLd (U : List String) (cs : CS) (r : Res) : Prop :=
  noLdList r.pre = true ∧ ∀ L, Rel U L cs.loaded → ∃ L', ldEnd r.out L = some L' ∧ Rel U L' r.cs.loaded

theorem ResLd.ofQuiet {U : List String} {cs : CS} {o : Out} (h : LdQuiet cs o) : ResLd U cs (Res.ofOut o) := by
  refine ⟨by simp [Res.ofOut, noLdList], ?_⟩
  intro L hL
  exact ⟨L, ldEnd_noLd _ h.1 L, by simpa [Res.ofOut, h.2] using hL⟩

theorem ResLd.stop (U : List String) (cs : CS) (e : Option Err) : ResLd U cs { cs := cs, err := e } := by
  refine ⟨by simp [noLdList], ?_⟩
  intro L hL
  exact ⟨L, rfl, hL⟩

theorem andThen_ld {U : List String} {cs : CS} {a : Res} {f : CS → Res} (ha : ResLd U cs a) (hf : ResLd U a.cs (f a.cs)) :
    ResLd U cs (a.andThen f) := by
  unfold Res.andThen
  split
  · exact ha
  · refine ⟨by simp [noLd_append, ha.1, hf.1], ?_⟩
    intro L hL
    obtain ⟨L1, e1, r1⟩ := ha.2 L hL
    obtain ⟨L2, e2, r2⟩ := hf.2 L1 r1
    exact ⟨L2, by simp [ldEnd_append, e1, e2], r2⟩

theorem ldEnd_emit (is : List Instr) (L : List String) : ldEnd (emit is) L = scanLoaded is L := by
  simp [ldEnd, flattenStmts_emit]

theorem loadOp_ld (U : List String) (p : String) (t : Nat) (cs : CS) (hp : p ∈ U) (hU : KeysAgree U) :
    ResLd U cs (loadOp p t cs) := by
  unfold loadOp
  split
  · exact ResLd.stop U cs _
  · refine ⟨by simp [noLdList], ?_⟩
    intro L hL
    refine ⟨if L.contains (progKey p) then L else progKey p :: L, by simp [ldEnd_emit, scanLoaded], ?_⟩
    obtain ⟨hnd, hrel⟩ := hL
    have hpq := hrel p hp
    by_cases hc : stemOf p ∈ cs.loaded
    · have hk : progKey p ∈ L := hpq.1 hc
      simp only [List.contains_iff_mem, hc, hk, if_true]
      exact ⟨hnd, hrel⟩
    · have hk : progKey p ∉ L := fun h => hc (hpq.2 h)
      simp only [List.contains_iff_mem, hc, hk, if_false]
      refine ⟨?_, ?_⟩
      · rw [List.nodup_append]
        refine ⟨hnd, by simp, ?_⟩
        intro a ha b hb
        simp at hb
        subst hb
        intro hab; subst hab; exact hc ha
      · intro q hq
        have h1 := hrel q hq
        have h2 := hU q hq p hp
        simp only [List.mem_append, List.mem_singleton, List.mem_cons, List.not_mem_nil, or_false]
        constructor
        · rintro (a | a)
          · exact Or.inr (h1.1 a)
          · exact Or.inl (h2.1 a)
        · rintro (a | a)
          · exact Or.inr (h2.2 a)
          · exact Or.inl (h1.2 a)

theorem removeOp_ld (U : List String) (p : String) (t : Nat) (cs : CS) (hp : p ∈ U) (hU : KeysAgree U) :
    ResLd U cs (removeOp p t cs) := by
  unfold removeOp
  split
  · exact ResLd.stop U cs _
  · split
    · exact ResLd.stop U cs _
    · rename_i _ hin
      have hc : stemOf p ∈ cs.loaded := by simpa using hin
      refine ⟨by simp [noLdList], ?_⟩
      intro L hL
      obtain ⟨hnd, hrel⟩ := hL
      have hk : progKey p ∈ L := (hrel p hp).1 hc
      refine ⟨L.filter (· != progKey p), ?_, ?_⟩
      · simp [ldEnd_emit, scanLoaded, progKey_posixName, hk, noLdInstr]
      · refine ⟨hnd.erase _, ?_⟩
        intro q hq
        have h1 := hrel q hq
        have h2 := hU q hq p hp
        rw [hnd.mem_erase_iff]
        simp only [List.mem_filter, bne_iff_ne, ne_eq]
        constructor
        · rintro ⟨a, b⟩
          exact ⟨h1.1 b, fun h => a (h2.2 h)⟩
        · rintro ⟨a, b⟩
          exact ⟨fun h => b (h2.1 h), h1.2 a⟩

theorem farcallOp_ld (U : List String) (cfg : Cfg) (p : String) (cs : CS) (hp : p ∈ U) :
    ResLd U cs (farcallOp cfg p cs) := by
  unfold farcallOp
  split
  · exact ResLd.stop U cs _
  · split
    · exact ResLd.stop U cs _
    · rename_i _ hin
      have hc : stemOf p ∈ cs.loaded := by simpa using hin
      refine ⟨by simp [Res.ofOut, noLdList], ?_⟩
      intro L hL
      have hk : progKey p ∈ L := (hL.2 p hp).1 hc
      have hd := dwell_ldq cfg.shortPause cs
      refine ⟨L, ?_, ?_⟩
      · simp only [Res.ofOut, Femto.Gc.seq, ldEnd_append, ldEnd_noLd _ hd.1, Option.bind_some, ldEnd_emit]
        simp [scanLoaded, hk]
      · simpa [Res.ofOut, Femto.Gc.seq, hd.2] using hL

theorem bufferedOp_ld (U : List String) (cfg : Cfg) (p : String) (t : Nat) (cs : CS) (hp : p ∈ U) :
    ResLd U cs (bufferedOp cfg p t cs) := by
  unfold bufferedOp
  split
  · exact ResLd.stop U cs _
  · split
    · exact ResLd.stop U cs _
    · rename_i _ hin
      have hc : stemOf p ∈ cs.loaded := by simpa using hin
      refine ⟨by simp [Res.ofOut, noLdList], ?_⟩
      intro L hL
      have hk : progKey p ∈ L := (hL.2 p hp).1 hc
      have hd := dwell_ldq cfg.shortPause cs
      refine ⟨L, ?_, ?_⟩
      · simp only [Res.ofOut, Femto.Gc.seq, ldEnd_append, ldEnd_noLd _ hd.1, Option.bind_some, ldEnd_emit]
        simp [scanLoaded, hk, noLdInstr]
      · simpa [Res.ofOut, Femto.Gc.seq, hd.2] using hL

theorem moveRes_ld (U : List String) (cfg : Cfg) (x y z sp : Option Rat) (cs : CS) :
    ResLd U cs (let r := moveTo cfg x y z sp cs; ({ out := r.1.1, cs := r.1.2, err := r.2 } : Res)) := by
  have h := moveTo_ldq cfg x y z sp cs
  refine ⟨by simp [noLdList], ?_⟩
  intro L hL
  exact ⟨L, ldEnd_noLd _ h.1 L, by simpa [h.2] using hL⟩

theorem farcallListOp_ld (U : List String) (cfg : Cfg) (items : List (String × Nat)) (cs : CS)
    (hU : KeysAgree U) (hcl : ∀ p ∈ U, posixName p ∈ U) (hp : ∀ it ∈ items, it.1 ∈ U) :
    ResLd U cs (farcallListOp cfg items cs) := by
  induction items generalizing cs with
  | nil => simp only [farcallListOp]; exact ResLd.stop U cs none
  | cons it rest ih =>
    obtain ⟨p, t⟩ := it
    have hpU : p ∈ U := hp (p, t) (by simp)
    simp only [farcallListOp]
    refine andThen_ld (andThen_ld (andThen_ld (andThen_ld (loadOp_ld U p t cs hpU hU) (farcallOp_ld U cfg _ _ (hcl p hpU)))
      (ResLd.ofQuiet (dwell_ldq _ _))) (removeOp_ld U _ t _ (hcl p hpU) hU)) ?_
    exact andThen_ld (ResLd.ofQuiet (LdQuiet.seq (dwell_ldq _ _) (fun c' => emit_ldq c' _ (by simp [noLdInstr]))))
      (ih _ (fun it hit => hp it (by simp [hit])))

theorem mem_pathsOps_cons {op : Op} {ops : List Op} {q : String} :
    q ∈ pathsOps (op :: ops) ↔ q ∈ pathsOp op ∨ q ∈ pathsOps ops := by
  simp [pathsOps]

mutual
  theorem execOp_ld (U : List String) (hU : KeysAgree U) (hcl : ∀ p ∈ U, posixName p ∈ U) (cfg : Cfg) (op : Op) (cs : CS)
      (hop : ∀ q ∈ pathsOp op, q ∈ U) : ResLd U cs (execOp cfg op cs) := by
    match op with
    | .write m =>
      simp only [execOp]
      cases h : write cfg m cs with
      | ok o => exact ResLd.ofQuiet (write_ldq cfg m cs o h)
      | error e => exact ResLd.stop U cs _
    | .moveTo x y z sp => simp only [execOp]; exact moveRes_ld U cfg x y z sp cs
    | .goOrigin =>
      simp only [execOp]
      exact andThen_ld (ResLd.ofQuiet (comment_ldq true cs)) (moveRes_ld U cfg _ _ _ _ _)
    | .goInit => simp only [execOp]; exact moveRes_ld U cfg _ _ _ _ cs
    | .dwell p => simp only [execOp]; exact ResLd.ofQuiet (dwell_ldq p cs)
    | .comment b => simp only [execOp]; exact ResLd.ofQuiet (comment_ldq b cs)
    | .setHome x y z =>
      simp only [execOp]
      split
      · exact ResLd.stop U cs _
      · exact ResLd.ofQuiet (o := (emit [Instr.g92 (x.map (fmt cfg.digits)) (y.map (fmt cfg.digits)) (z.map (fmt cfg.digits))], cs))
          (emit_ldq cs _ (by simp [noLdInstr]))
    | .rep n body =>
      simp only [execOp]
      split
      · exact ResLd.stop U cs _
      · obtain ⟨h1, h2⟩ := execOps_ld U hU hcl cfg body cs (by simpa [pathsOp] using hop)
        refine ⟨h1, ?_⟩
        intro L hL
        obtain ⟨L', e, r⟩ := h2 L hL
        exact ⟨L', by rw [ldEnd_rep]; exact e, r⟩
    | .forr v n body =>
      simp only [execOp]
      split
      · exact ResLd.stop U cs _
      · split
        · exact ResLd.stop U cs _
        · obtain ⟨h1, h2⟩ := execOps_ld U hU hcl cfg body cs (by simpa [pathsOp] using hop)
          refine ⟨h1, ?_⟩
          intro L hL
          obtain ⟨L', e, r⟩ := h2 L hL
          exact ⟨L', by rw [ldEnd_forr]; exact e, r⟩
    | .axisRot a body =>
      simp only [execOp]
      have ha := enterRot_ldq cfg a cs
      obtain ⟨h1, h2⟩ := execOps_ld U hU hcl cfg body (enterRot cfg a cs).2 (by simpa [pathsOp] using hop)
      have hx := exitRot_ldq cfg (execOps cfg body (enterRot cfg a cs).2).cs
      refine ⟨h1, ?_⟩
      intro L hL
      obtain ⟨L', e, r⟩ := h2 L (by rw [ha.2]; exact hL)
      refine ⟨L', ?_, by rw [hx.2]; exact r⟩
      rw [ldEnd_append, ldEnd_append, ldEnd_noLd _ ha.1]
      simp only [Option.bind_some, e]
      exact ldEnd_noLd _ hx.1 L'
    | .dvar vs =>
      simp only [execOp]
      refine ⟨by simp [noLdList, emit, noLdStmt, noLdInstr], ?_⟩
      intro L hL
      exact ⟨L, rfl, hL⟩
    | .load p t => simp only [execOp]; exact loadOp_ld U p t cs (hop p (by simp [pathsOp])) hU
    | .farcall p => simp only [execOp]; exact farcallOp_ld U cfg p cs (hop p (by simp [pathsOp]))
    | .buffered p t => simp only [execOp]; exact bufferedOp_ld U cfg p t cs (hop p (by simp [pathsOp]))
    | .remove p t => simp only [execOp]; exact removeOp_ld U p t cs (hop p (by simp [pathsOp])) hU
    | .farcallList items =>
      simp only [execOp]
      exact farcallListOp_ld U cfg items cs hU hcl (fun it hit => hop it.1 (by simp only [pathsOp, List.mem_map]; exact ⟨it, hit, rfl⟩))
    | .raise => simp only [execOp]; exact ResLd.stop U cs _
    | .attempt body =>
      simp only [execOp]
      exact execOps_ld U hU hcl cfg body cs (by simpa [pathsOp] using hop)
    | .loadBad p => simp only [execOp]; exact ResLd.stop U cs _
  theorem execOps_ld (U : List String) (hU : KeysAgree U) (hcl : ∀ p ∈ U, posixName p ∈ U) (cfg : Cfg) (ops : List Op) (cs : CS)
      (hops : ∀ q ∈ pathsOps ops, q ∈ U) : ResLd U cs (execOps cfg ops cs) := by
    match ops with
    | [] => simp only [execOps]; exact ResLd.stop U cs none
    | op :: ops =>
      simp only [execOps]
      have ha := execOp_ld U hU hcl cfg op cs (fun q hq => hops q (mem_pathsOps_cons.2 (Or.inl hq)))
      cases he : (execOp cfg op cs).err with
      | some e => simpa [he] using ha
      | none =>
        simp only [he]
        obtain ⟨a1, a2⟩ := ha
        obtain ⟨b1, b2⟩ := execOps_ld U hU hcl cfg ops (execOp cfg op cs).cs (fun q hq => hops q (mem_pathsOps_cons.2 (Or.inr hq)))
        refine ⟨by simp [noLd_append, a1, b1], ?_⟩
        intro L hL
        obtain ⟨L1, e1, r1⟩ := a2 L hL
        obtain ⟨L2, e2, r2⟩ := b2 L1 r1
        exact ⟨L2, by simp [ldEnd_append, e1, e2], r2⟩
end

/-! ### closing a set of names under `posixName` -/

def closeU (U : List String) : List String := U ++ U.map posixName

theorem closeU_closed (U : List String) : ∀ p ∈ closeU U, posixName p ∈ closeU U := by
  intro p hp
  simp only [closeU, List.mem_append, List.mem_map] at hp ⊢
  rcases hp with h | ⟨q, hq, rfl⟩
  · exact Or.inr ⟨p, h, rfl⟩
  · exact Or.inr ⟨q, hq, (posixName_idem q).symm⟩

theorem KeysAgree.close {U : List String} (h : KeysAgree U) : KeysAgree (closeU U) := by
  have key : ∀ p ∈ closeU U, ∃ p' ∈ U, stemOf p = stemOf p' ∧ progKey p = progKey p' := by
    intro p hp
    simp only [closeU, List.mem_append, List.mem_map] at hp
    rcases hp with h | ⟨q, hq, rfl⟩
    · exact ⟨p, h, rfl, rfl⟩
    · exact ⟨q, hq, stemOf_posixName q, progKey_posixName q⟩
  intro p hp q hq
  obtain ⟨p', hp', e1, e2⟩ := key p hp
  obtain ⟨q', hq', f1, f2⟩ := key q hq
  rw [e1, e2, f1, f2]
  exact h p' hp' q' hq'

/-- **calls are preceded by loads** (program order): the scan of the whole session text for "call / buffered run / remove of
a program that is not loaded at that point" succeeds, whatever the operations and wherever one of them stopped with an error -/
theorem session_calls_loaded_aux (cfg : Cfg) (ops : List Op) (hh : ∀ i ∈ cfg.header, noLdInstr i = true)
    (hU : KeysAgree (pathsOps ops)) : ∃ L, ldEnd (session cfg ops).1 [] = some L := by
  have hV := hU.close
  have hcl := closeU_closed (pathsOps ops)
  have hsub : ∀ q ∈ pathsOps ops, q ∈ closeU (pathsOps ops) := fun q hq => by simp [closeU, hq]
  unfold session
  simp only
  generalize hh0 : Femto.Gc.seq (Femto.Gc.seq (emit (cfg.header ++ [Instr.blank]), ({} : CS)) (dwell (some 1))) (fun cs => (emit [Instr.blank], cs)) = h0
  have hq0 : LdQuiet ({} : CS) h0 := by
    subst hh0
    refine LdQuiet.seq (LdQuiet.seq (emit_ldq _ _ ?_) (dwell_ldq _)) (fun c => emit_ldq c _ (by simp [noLdInstr]))
    intro i hi
    simp only [List.mem_append, List.mem_singleton] at hi
    rcases hi with hi | rfl
    · exact hh i hi
    · rfl
  generalize hh1 : (if cfg.aeroAngle = 0 then h0 else Femto.Gc.seq h0 (enterRot cfg (some cfg.aeroAngle))) = h1
  have hq1 : LdQuiet ({} : CS) h1 := by
    subst hh1
    split
    · exact hq0
    · exact LdQuiet.seq hq0 (fun c => enterRot_ldq cfg _ c)
  obtain ⟨r1, r2⟩ := execOps_ld (closeU (pathsOps ops)) hV hcl cfg ops h1.2 hsub
  have hrel0 : Rel (closeU (pathsOps ops)) [] h1.2.loaded := by
    rw [hq1.2]
    exact ⟨List.nodup_nil, fun q _ => by simp [show ({} : CS).loaded = [] from rfl]⟩
  obtain ⟨L', e, _⟩ := r2 [] hrel0
  generalize hx : (if cfg.aeroAngle = 0 then (([] : List Stmt), (execOps cfg ops h1.2).cs)
      else Femto.Gc.seq (exitRot cfg (execOps cfg ops h1.2).cs) fun cs => (emit [Instr.blank], cs)) = x
  have hqx : noLdList x.1 = true := by
    subst hx
    split
    · simp [noLdList]
    · exact (LdQuiet.seq (exitRot_ldq cfg _) (fun c => emit_ldq c _ (by simp [noLdInstr]))).1
  refine ⟨L', ?_⟩
  split
  · simp only [ldEnd_append, ldEnd_noLd _ r1, ldEnd_noLd _ hq1.1, Option.bind_some, e, ldEnd_noLd _ hqx]
    exact ldEnd_noLd _ (moveTo_ldq cfg _ _ _ _ _).1 L'
  · simp only [ldEnd_append, ldEnd_noLd _ r1, ldEnd_noLd _ hq1.1, Option.bind_some, e, ldEnd_noLd _ hqx]
    rfl

end Femto.Gc

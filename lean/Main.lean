import FemtoVerif.Driver.Dispatch

/-- Line protocol: one JSON object per input line, one JSON object per output line. -/
partial def loop (hin : IO.FS.Stream) (hout : IO.FS.Stream) : IO Unit := do
  let line ← hin.getLine
  if line.isEmpty then return ()
  let t := line.trimAscii.toString
  if t.isEmpty then
    loop hin hout
  else
    hout.putStrLn (Femto.Driver.handleLine t)
    loop hin hout

def main : IO Unit := do
  let hin ← IO.getStdin
  let hout ← IO.getStdout
  loop hin hout
  hout.flush

-- Root of the `FemtoVerif` library: executable models (import-free), driver, and property theorems.
import FemtoVerif.Model.Filter
import FemtoVerif.Driver.Dispatch
import FemtoVerif.Props.C01
import FemtoVerif.Props.C03
import FemtoVerif.Props.C11
import FemtoVerif.Props.C12

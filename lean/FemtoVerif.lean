-- Root of the `FemtoVerif` library: executable models (import-free), driver, and property theorems.
import FemtoVerif.Model.Filter
import FemtoVerif.Driver.Dispatch
import FemtoVerif.Props.C01
import FemtoVerif.Props.C02
import FemtoVerif.Props.C03
import FemtoVerif.Props.C04
import FemtoVerif.Props.C07
import FemtoVerif.Props.C05
import FemtoVerif.Props.C06
import FemtoVerif.Props.C08
import FemtoVerif.Props.C09
import FemtoVerif.Props.C10
import FemtoVerif.Props.C11
import FemtoVerif.Props.C12
import FemtoVerif.Props.C13
import FemtoVerif.Props.C14
import FemtoVerif.Props.C15
import FemtoVerif.Props.C16
import FemtoVerif.Props.C17
import FemtoVerif.Props.C18
import FemtoVerif.Props.C19
-- generated tie theorems (translator, DESIGN 3.1); regenerated from /repo on every run
import FemtoVerif.Gen.TieC02
import FemtoVerif.Gen.TieC04
import FemtoVerif.Gen.TieC05
import FemtoVerif.Gen.TieC06
import FemtoVerif.Gen.TieC13
